"""C02 - bulk parameter updates are atomic; names stay unique; copies are independent (DESIGN.md section 4, C02). Bounded."""
PROPERTY = 'C02'
LEVEL = 'model_checking'
import importlib.util, os
_spec = importlib.util.spec_from_file_location('unit_C01_for_C02', os.path.join(os.path.dirname(__file__), 'C01.py'))
_c01 = importlib.util.module_from_spec(_spec); _spec.loader.exec_module(_c01)

TUS = {'constraints': _c01.TUS['constraints'], 'param': _c01.TUS['param'],
       'plist': dict(src='#include "/repo/src/Bpp/Numeric/ParameterList.cpp"\n', filter='bpp::ParameterList', flags=['-I/repo/src/Bpp/Numeric'])}
IC, CI, PA, PE = _c01.IC, _c01.CI, _c01.PA, _c01.PE
PL = 'bpp::ParameterList'
S = 'std::basic_string<char>'
VP = 'std::vector<std::shared_ptr<bpp::Parameter>>'
CFG = dict(_c01.CFG)
CFG['rename'] = dict(_c01.CFG['rename'])
CFG['rename'].update({
    (PL, 'parameter', 1, 'this:const'): 'ParameterList__parameter_c', (PL, 'parameter', 1, 'this:mut'): 'ParameterList__parameter',
    (PL, 'getParameter', 1, 'args:Str'): 'ParameterList__getParameter_name', (PL, 'getParameter', 1, 'args:unsigned long'): 'ParameterList__getParameter_idx',
    (PL, 'operator[]', 1): 'ParameterList__op_index',
    (PL, 'addParameter', 1): 'ParameterList__addParameter', (PL, 'deleteParameter', 1, 'args:Str'): 'ParameterList__deleteParameter_name',
    (PA, 'getConstraint', 0, 'this:const'): 'Parameter__getConstraint_c', (PA, 'getConstraint', 0, 'this:mut'): 'Parameter__getConstraint',
    (VP, 'erase', 1): 'Vec_p_Parameter__erase', (VP, 'resize', 1): 'Vec_p_Parameter__resize',
    ('ctor', VP, 1): 'Vec_p_Parameter__ctor_1',
    (S, 'operator=', 1): 'Str__op_assign',
})
CFG['free'] = dict(_c01.CFG['free'])
CFG['free'].update({('operator==', S, S): 'Str__eq', ('sort', 2): 'verif_sort_ulong'})
CFG['range_for'] = dict(_c01.CFG.get('range_for', {}))
CFG['range_for'].update({'std::vector<unsigned long>': ('Vec_ulong__size', 'Vec_ulong__op_index'), 'std::vector<std::basic_string<char>>': ('Vec_Str__size', 'Vec_Str__op_index')})
CFG['throws'] = set(_c01.CFG['throws'])
STRUCTS = [CI, IC, PA, PE, PL]
PRE_STRUCTS = r'''
#include "str.h"
#include "vec.h"
#include "libm.h"
enum { KIND_other = 0, KIND_IntervalConstraint = 1 };
typedef struct ParameterListener ParameterListener;
typedef struct OutputStream OutputStream;
typedef struct Parameter Parameter;
VEC_DECL(ParameterListener*, Vec_p_ParameterListener)
VEC_DECL(Parameter*, Vec_p_Parameter)
VEC_DECL(unsigned long, Vec_ulong)
VEC_DECL(Str, Vec_Str)
'''
PRELUDE = r'''
static inline double NumConstants__PINF(void) { return VERIF_PINF; }
static inline double NumConstants__MINF(void) { return VERIF_MINF; }
static inline double NumConstants__TINY(void) { return 1e-12; }
#include "spec_C01.h"
#define DYNCAST__IntervalConstraint(p) (((p) != 0 && ((const ConstraintInterface*)(p))->verif_kind == KIND_IntervalConstraint) ? (IntervalConstraint*)(p) : (IntervalConstraint*)0)
/* virtual dispatch of ConstraintInterface::isCorrect: only interval constraints occur in these runs */
_Bool IntervalConstraint__isCorrect(IntervalConstraint *self, double value);
static inline _Bool ConstraintInterface__isCorrect(const ConstraintInterface *c, double v) { return IntervalConstraint__isCorrect((IntervalConstraint*)c, v); }
/* listeners: none are attached in these runs */
static inline void ParameterListener__parameterValueChanged(ParameterListener *l, ParameterEvent *e) { }
static inline void ParameterListener__parameterNameChanged(ParameterListener *l, ParameterEvent *e) { }
static inline void verif_sort_ulong(unsigned long *first, unsigned long *last) { long n = last - first;
  for (long i = 1; i < VEC_BCAP; ++i) if (i < n) { unsigned long x = first[i]; long j = i; for (long k = 0; k < VEC_BCAP; ++k) { if (!(j > 0 && x < first[j - 1])) break; first[j] = first[j - 1]; --j; } first[j] = x; } }
'''
STUB_CONTRACTS = set()

def B(cname, qname, **k):
    return dict(cname=cname, qname=qname, **k)

_keep = ('IntervalConstraint__getLowerBound', 'IntervalConstraint__getUpperBound', 'IntervalConstraint__isCorrect', 'IntervalConstraint__ctor_5',
         'ParameterEvent__ctor_1', 'Parameter__fireParameterValueChanged', 'Parameter__setValue', 'Parameter__ctor_copy', 'Parameter__op_assign',
         'Parameter__getValue', 'Parameter__hasConstraint')
FUNCS = [dict(cname=f['cname'], qname=f['qname'], sig=f.get('sig')) for f in _c01.FUNCS if f['cname'] in _keep]
FUNCS += [
    B('Parameter__getName', PA + '::getName'), B('Parameter__clone', PA + '::clone'),
    B('Parameter__getConstraint_c', PA + '::getConstraint', sig='=std::shared_ptr<const ConstraintInterface> () const'),
    B('Parameter__getConstraint', PA + '::getConstraint', sig='=std::shared_ptr<ConstraintInterface> ()'),
    B('ParameterList__ctor_0', PL + '::ParameterList', sig='void ()'),
    B('ParameterList__ctor_copy', PL + '::ParameterList', sig='void (const bpp::ParameterList &)'),
    B('ParameterList__op_assign', PL + '::operator='),
    B('ParameterList__size', PL + '::size'),
    B('ParameterList__op_index', PL + '::operator[]', sig='=const bpp::Parameter &(size_t) const'),
    B('ParameterList__getParameter_idx', PL + '::getParameter', sig='=const std::shared_ptr<Parameter> &(size_t) const'),
    B('ParameterList__parameter_c', PL + '::parameter', sig='=const bpp::Parameter &(const std::string &) const'),
    B('ParameterList__parameter', PL + '::parameter', sig='=bpp::Parameter &(const std::string &)'),
    B('ParameterList__getParameter_name', PL + '::getParameter', sig='=const shared_ptr<bpp::Parameter> &(const std::string &) const'),
    B('ParameterList__hasParameter', PL + '::hasParameter'),
    B('ParameterList__whichParameterHasName', PL + '::whichParameterHasName'),
    B('ParameterList__addParameter', PL + '::addParameter', sig='void (const bpp::Parameter &)'),
    B('ParameterList__shareParameter', PL + '::shareParameter'),
    B('ParameterList__includeParameters', PL + '::includeParameters'),
    B('ParameterList__addParameters', PL + '::addParameters'),
    B('ParameterList__shareParameters', PL + '::shareParameters'),
    B('ParameterList__setParameterValue', PL + '::setParameterValue'),
    B('ParameterList__setAllParametersValues', PL + '::setAllParametersValues'),
    B('ParameterList__setParametersValues', PL + '::setParametersValues'),
    B('ParameterList__testParametersValues', PL + '::testParametersValues'),
    B('ParameterList__matchParametersValues', PL + '::matchParametersValues'),
    B('ParameterList__setAllParameters', PL + '::setAllParameters'),
    B('ParameterList__setParameters', PL + '::setParameters'),
    B('ParameterList__matchParameters', PL + '::matchParameters'),
    B('ParameterList__deleteParameter_name', PL + '::deleteParameter', sig='void (const std::string &)'),
    B('ParameterList__deleteParameter_idx', PL + '::deleteParameter', sig='void (size_t)'),
    B('ParameterList__deleteParameters_idx', PL + '::deleteParameters', sig='void (const std::vector<size_t> &)'),
    B('ParameterList__createSubList_names', PL + '::createSubList', sig='(const std::vector<std::string> &) const'),
    B('ParameterList__shareSubList_names', PL + '::shareSubList', sig='(const std::vector<std::string> &) const'),
]
LEMMAS = []
TRUSTED = ['std::vector / std::string / std::shared_ptr models of /verif/stubs (shared_ptr identity = raw pointer)', 'only interval constraints occur; no listener is attached']
ASSUMPTIONS = ['parameters with the default zero precision (quantifier of C02)']
NOT_DECIDED = ['lists longer than the bound', 'AbstractParametrizable forwarding methods', 'wildcard name matching (getMatchingParameterNames)']

HC = r"""
#define FOR(i, n) for (unsigned long i = 0; i < (unsigned long)(n); ++i)
/* named inputs: target list t*, source list s* */
char in_tn[NT + 1], in_sn[NS + 1]; double in_tv[NT + 1], in_sv[NS + 1]; _Bool in_tc[NT + 1], in_til[NT + 1], in_tiu[NT + 1]; double in_tlb[NT + 1], in_tub[NT + 1];
static Str mkname(char c) { Str s; s.d = (char*)verif_new_array(STR_BCAP, 1); s.d[0] = c; s.d[1] = 0; s.n = 1; return s; }
static double nd_val(void) { double v = nondet_double(); __CPROVER_assume(v >= -100.0 && v <= 100.0); return v; }
static char nd_name(void) { char c = nondet_char(); __CPROVER_assume(c == 'a' || c == 'b' || c == 'c' || c == 'd'); return c; }
#define ACC(i, v) (!in_tc[i] || (((v) > in_tlb[i] || (in_til[i] && (v) == in_tlb[i])) && ((v) < in_tub[i] || (in_tiu[i] && (v) == in_tub[i]))))
static Parameter *mkparam(char name, double v, _Bool cons, double lb, double ub, _Bool il, _Bool iu) {
  Parameter *p = (Parameter*)verif_new(sizeof(Parameter)); p->name_ = mkname(name); p->value_ = v; p->precision_ = 0; Vec_p_ParameterListener__ctor_0(&p->listeners_); p->constraint_ = 0;
  if (cons) { IntervalConstraint *c = (IntervalConstraint*)verif_new(sizeof(IntervalConstraint)); IntervalConstraint__ctor_5(c, lb, ub, il, iu, 1e-12); p->constraint_ = (ConstraintInterface*)c; }
  return p; }
static void mk_target(ParameterList *l) { ParameterList__ctor_0(l);
  FOR(i, NT) { in_tn[i] = nd_name(); FOR(j, NT) if (j < i) __CPROVER_assume(in_tn[j] != in_tn[i]);      /* names inside a list are unique */
    in_tv[i] = nd_val(); in_tc[i] = nondet_bool(); in_tlb[i] = nd_val(); in_tub[i] = nd_val(); in_til[i] = nondet_bool(); in_tiu[i] = nondet_bool();
    __CPROVER_assume(ACC(i, in_tv[i]));                                                                    /* the class invariant of C01 holds in the pre-state */
    Parameter *p = mkparam(in_tn[i], in_tv[i], in_tc[i], in_tlb[i], in_tub[i], in_til[i], in_tiu[i]); Vec_p_Parameter__push_back(&l->parameters_, &p); } }
static void mk_source(ParameterList *l) { ParameterList__ctor_0(l);
  FOR(i, NS) { in_sn[i] = nd_name(); FOR(j, NS) if (j < i) __CPROVER_assume(in_sn[j] != in_sn[i]); in_sv[i] = nd_val();
    Parameter *p = mkparam(in_sn[i], in_sv[i], 0, 0, 0, 0, 0); Vec_p_Parameter__push_back(&l->parameters_, &p); } }
#define TNAME(l, i) ((l).parameters_.d[i]->name_.d[0])
#define TVAL(l, i) ((l).parameters_.d[i]->value_)
static int src_of(unsigned long i) { int r = -1; FOR(j, NS) if (in_sn[j] == in_tn[i]) r = (int)j; return r; }   /* source position naming target i, or -1 */
#define TARGET_SAME_SHAPE(t) do { __CPROVER_assert((t).parameters_.n == NT, "the target keeps its parameters"); FOR(i_, NT) __CPROVER_assert(TNAME(t, i_) == in_tn[i_] && ((t).parameters_.d[i_]->constraint_ != 0) == in_tc[i_], "names and constraints of the target are untouched"); } while (0)
#define TARGET_UNCHANGED(t) do { TARGET_SAME_SHAPE(t); FOR(i_, NT) __CPROVER_assert(TVAL(t, i_) == in_tv[i_], "a raising bulk update changes nothing"); } while (0)
#define SOURCE_UNCHANGED(s) do { __CPROVER_assert((s).parameters_.n == NS, "the source keeps its parameters"); FOR(i_, NS) __CPROVER_assert(TNAME(s, i_) == in_sn[i_] && TVAL(s, i_) == in_sv[i_], "the source list is not modified"); } while (0)
#define CANARY() __CPROVER_assert(0, "verif_canary reachable after call")
"""
H = {}
H['setParametersValues'] = HC + r"""
void h(void) { ParameterList t, s; mk_target(&t); mk_source(&s); verif_exc = 0;
  _Bool rejected = 0; FOR(i, NT) { int j = src_of(i); if (j >= 0 && !ACC(i, in_sv[j])) rejected = 1; }
  ParameterList__setParametersValues(&t, &s);
  if (rejected) { __CPROVER_assert(verif_exc == EXC_ConstraintException, "a value rejected by its target's constraint raises ConstraintException"); TARGET_UNCHANGED(t); }
  else { __CPROVER_assert(verif_exc == 0, "accepted values do not raise"); TARGET_SAME_SHAPE(t);
    FOR(i, NT) { int j = src_of(i); __CPROVER_assert(TVAL(t, i) == (j >= 0 ? in_sv[j] : in_tv[i]), "every matching value is applied and parameters not named in the source are never touched"); } }
  SOURCE_UNCHANGED(s); CANARY(); }
"""
H['matchParametersValues'] = HC + r"""
void h(void) { ParameterList t, s; mk_target(&t); mk_source(&s); verif_exc = 0; Vec_ulong upd; Vec_ulong__ctor_0(&upd);
  _Bool rejected = 0; FOR(i, NT) { int j = src_of(i); if (j >= 0 && !ACC(i, in_sv[j])) rejected = 1; }
  _Bool ch = ParameterList__matchParametersValues(&t, &s, &upd);
  if (rejected) { __CPROVER_assert(verif_exc == EXC_ConstraintException, "a value rejected by its target's constraint raises ConstraintException"); TARGET_UNCHANGED(t); __CPROVER_assert(upd.n == 0, "no changed position is reported when raising"); }
  else { __CPROVER_assert(verif_exc == 0, "accepted values do not raise"); TARGET_SAME_SHAPE(t);
    FOR(i, NT) { int j = src_of(i); __CPROVER_assert(TVAL(t, i) == (j >= 0 ? in_sv[j] : in_tv[i]), "every matching value is applied and parameters not named in the source are never touched"); }
    /* the flag and the changed positions are exactly the source entries whose value differed */
    unsigned long k = 0; _Bool any = 0;
    FOR(j, NS) { _Bool differs = 0; FOR(i, NT) if (in_tn[i] == in_sn[j] && in_tv[i] != in_sv[j]) differs = 1;
      if (differs) { any = 1; __CPROVER_assert(k < upd.n && upd.d[k] == j, "updatedParameters lists exactly the source positions whose value differed, in order"); k++; } }
    __CPROVER_assert(k == upd.n, "updatedParameters lists nothing else"); __CPROVER_assert(ch == any, "the changed flag is true iff some value differed"); }
  SOURCE_UNCHANGED(s); CANARY(); }
"""
H['setAllParametersValues'] = HC + r"""
void h(void) { ParameterList t, s; mk_target(&t); mk_source(&s); verif_exc = 0;
  _Bool missing = 0, rejected = 0; FOR(i, NT) { int j = src_of(i); if (j < 0) missing = 1; }
  /* the first pass stops at the first target that is absent from the source or whose value is rejected */
  FOR(i, NT) { int j = src_of(i); if (j >= 0 && !ACC(i, in_sv[j])) rejected = 1; }
  ParameterList__setAllParametersValues(&t, &s);
  if (missing || rejected) { __CPROVER_assert(verif_exc == EXC_ParameterNotFoundException || verif_exc == EXC_ConstraintException, "a missing name or a rejected value raises");
    __CPROVER_assert(!(missing && !rejected) || verif_exc == EXC_ParameterNotFoundException, "a missing name raises ParameterNotFoundException");
    __CPROVER_assert(!(rejected && !missing) || verif_exc == EXC_ConstraintException, "a rejected value raises ConstraintException"); TARGET_UNCHANGED(t); }
  else { __CPROVER_assert(verif_exc == 0, "complete and accepted values do not raise"); TARGET_SAME_SHAPE(t); FOR(i, NT) __CPROVER_assert(TVAL(t, i) == in_sv[src_of(i)], "every value is applied"); }
  SOURCE_UNCHANGED(s); CANARY(); }
"""
H['testParametersValues'] = HC + r"""
void h(void) { ParameterList t, s; mk_target(&t); mk_source(&s); verif_exc = 0;
  _Bool rejected = 0, any = 0; FOR(i, NT) { int j = src_of(i); if (j >= 0 && !ACC(i, in_sv[j])) rejected = 1; if (j >= 0 && in_sv[j] != in_tv[i]) any = 1; }
  _Bool ch = ParameterList__testParametersValues(&t, &s);
  if (rejected) __CPROVER_assert(verif_exc == EXC_ConstraintException, "a rejected value raises ConstraintException");
  else __CPROVER_assert(verif_exc == 0 && ch == any, "the flag tells whether some value would change");
  TARGET_UNCHANGED(t); SOURCE_UNCHANGED(s); CANARY(); }
"""
H['addParameter'] = HC + r"""
void h(void) { ParameterList t, s; mk_target(&t); mk_source(&s); verif_exc = 0;      /* NS == 1: the parameter to add */
  _Bool present = 0; FOR(i, NT) if (in_tn[i] == in_sn[0]) present = 1;
  Parameter *p = s.parameters_.d[0];
  ParameterList__addParameter(&t, p);
  if (present) { __CPROVER_assert(verif_exc == EXC_ParameterException, "adding a parameter whose name is already present is refused"); TARGET_UNCHANGED(t); }
  else { __CPROVER_assert(verif_exc == 0 && t.parameters_.n == NT + 1, "a new name is appended");
    FOR(i, NT) __CPROVER_assert(TNAME(t, i) == in_tn[i] && TVAL(t, i) == in_tv[i], "existing entries are untouched");
    __CPROVER_assert(TNAME(t, NT) == in_sn[0] && TVAL(t, NT) == in_sv[0] && t.parameters_.d[NT] != p, "the list stores a copy of the added parameter"); }
  FOR(i, t.parameters_.n) FOR(j, t.parameters_.n) if (i < j) __CPROVER_assert(TNAME(t, i) != TNAME(t, j), "names inside the list stay unique");
  SOURCE_UNCHANGED(s); CANARY(); }
"""
H['includeParameters'] = HC + r"""
void h(void) { ParameterList t, s; mk_target(&t); mk_source(&s); verif_exc = 0;
  _Bool rejected = 0; FOR(i, NT) { int j = src_of(i); if (j >= 0 && !ACC(i, in_sv[j])) rejected = 1; }
  SHARE_OR_INCLUDE(&t, &s);
  FOR(i, t.parameters_.n) FOR(j, t.parameters_.n) if (i < j) __CPROVER_assert(TNAME(t, i) != TNAME(t, j), "including or sharing keeps names unique");
  if (!rejected) { __CPROVER_assert(verif_exc == 0, "accepted values do not raise");
    unsigned long extra = 0; FOR(j, NS) { _Bool known = 0; FOR(i, NT) if (in_tn[i] == in_sn[j]) known = 1; if (!known) extra++; }
    __CPROVER_assert(t.parameters_.n == NT + extra, "exactly the unknown names are appended");
    FOR(i, NT) { int j = src_of(i); __CPROVER_assert(TNAME(t, i) == in_tn[i] && TVAL(t, i) == (j >= 0 ? in_sv[j] : in_tv[i]), "a present name turns into a value update, the others are untouched"); }
    unsigned long k = NT; FOR(j, NS) { _Bool known = 0; FOR(i, NT) if (in_tn[i] == in_sn[j]) known = 1;
      if (!known) { __CPROVER_assert(TNAME(t, k) == in_sn[j] && TVAL(t, k) == in_sv[j], "appended entries carry the source's name and value"); __CPROVER_assert((t.parameters_.d[k] == s.parameters_.d[j]) == SHARED, "included entries are copies, shared entries are the very same objects"); k++; } } }
  else __CPROVER_assert(verif_exc == EXC_ConstraintException, "a rejected value raises ConstraintException");
  SOURCE_UNCHANGED(s); CANARY(); }
"""
H['deleteParameter_name'] = HC + r"""
void h(void) { ParameterList t, s; mk_target(&t); mk_source(&s); verif_exc = 0;     /* NS == 1: the name to delete */
  int pos = -1; FOR(i, NT) if (in_tn[i] == in_sn[0]) pos = (int)i;
  Str nm = mkname(in_sn[0]);
  ParameterList__deleteParameter_name(&t, &nm);
  if (pos < 0) { __CPROVER_assert(verif_exc == EXC_ParameterNotFoundException, "deleting an absent name raises ParameterNotFoundException"); TARGET_UNCHANGED(t); }
  else { __CPROVER_assert(verif_exc == 0 && t.parameters_.n == NT - 1, "exactly one entry is removed");
    FOR(i, NT) if (i != (unsigned long)pos) { unsigned long k = i < (unsigned long)pos ? i : i - 1; __CPROVER_assert(TNAME(t, k) == in_tn[i] && TVAL(t, k) == in_tv[i], "the other entries are kept in order"); } }
  CANARY(); }
"""
H['deleteParameters_idx'] = HC + r"""
unsigned long in_idx[NS + 1];
void h(void) { ParameterList t; mk_target(&t); verif_exc = 0; Vec_ulong idx; idx.d = (unsigned long*)verif_new_array(VEC_BCAP, sizeof(unsigned long)); idx.n = NS;
  _Bool bad = 0; FOR(j, NS) { in_idx[j] = nondet_ulong(); __CPROVER_assume(in_idx[j] <= NT + 1); FOR(k, NS) if (k < j) __CPROVER_assume(in_idx[k] != in_idx[j]); idx.d[j] = in_idx[j]; if (in_idx[j] >= NT) bad = 1; }
  ParameterList__deleteParameters_idx(&t, &idx);                                   /* unsorted, repeat-free index set */
  if (bad) { __CPROVER_assert(verif_exc == EXC_IndexOutOfBoundsException, "an index outside the list raises IndexOutOfBoundsException"); TARGET_UNCHANGED(t); }
  else { __CPROVER_assert(verif_exc == 0 && t.parameters_.n == NT - NS, "exactly the indexed entries are removed");
    unsigned long k = 0; FOR(i, NT) { _Bool del = 0; FOR(j, NS) if (in_idx[j] == i) del = 1; if (!del) { __CPROVER_assert(TNAME(t, k) == in_tn[i] && TVAL(t, k) == in_tv[i], "the other entries are kept in order"); k++; } } }
  FOR(j, NS) __CPROVER_assert(idx.d[j] == in_idx[j], "the index vector is not modified"); CANARY(); }
"""
H['copy'] = HC + r"""
void h(void) { ParameterList t, s; mk_target(&t); mk_source(&s); verif_exc = 0; ParameterList c;
  COPY_STMT
  __CPROVER_assert(verif_exc == 0 && c.parameters_.n == NT, "the copy has the same entries");
  FOR(i, NT) { __CPROVER_assert(TNAME(c, i) == in_tn[i] && TVAL(c, i) == in_tv[i], "the copy has equal names and values"); FOR(j, NT) __CPROVER_assert(c.parameters_.d[i] != t.parameters_.d[j], "a copied list owns its own parameter objects"); }
  /* later updates of either side leave the other unchanged */
  if (nondet_bool()) { ParameterList__setParametersValues(&c, &s); TARGET_UNCHANGED(t); }
  else { ParameterList__setParametersValues(&t, &s); FOR(i, NT) __CPROVER_assert(TVAL(c, i) == in_tv[i] && TNAME(c, i) == in_tn[i], "updating the source leaves the copy unchanged"); }
  CANARY(); }
"""
H['subList'] = HC + r"""
void h(void) { ParameterList t, s; mk_target(&t); mk_source(&s); verif_exc = 0;      /* the names of the source list select the entries */
  Vec_Str names; names.d = (Str*)verif_new_array(VEC_BCAP, sizeof(Str)); names.n = NS; FOR(j, NS) names.d[j] = mkname(in_sn[j]);
  _Bool missing = 0; FOR(j, NS) { _Bool known = 0; FOR(i, NT) if (in_tn[i] == in_sn[j]) known = 1; if (!known) missing = 1; }
  ParameterList r = SUBLIST(&t, &names);
  if (missing) __CPROVER_assert(verif_exc == EXC_ParameterNotFoundException, "a name absent from the list raises ParameterNotFoundException");
  else { __CPROVER_assert(verif_exc == 0 && r.parameters_.n == NS, "the sub-list addresses exactly the named entries");
    FOR(j, NS) FOR(i, NT) if (in_tn[i] == in_sn[j]) { __CPROVER_assert(TNAME(r, j) == in_tn[i] && TVAL(r, j) == in_tv[i], "sub-list entries carry the named values");
      __CPROVER_assert((r.parameters_.d[j] == t.parameters_.d[i]) == SHARED, "an extracted sub-list is independent, a shared sub-list observes the very same parameter objects"); } }
  TARGET_UNCHANGED(t); CANARY(); }
"""
H['lookup'] = HC + r"""
void h(void) { ParameterList t, s; mk_target(&t); mk_source(&s); verif_exc = 0;     /* NS == 1: the name looked up */
  int pos = -1; FOR(i, NT) if (in_tn[i] == in_sn[0] && pos < 0) pos = (int)i;
  Str nm = mkname(in_sn[0]);
  __CPROVER_assert(ParameterList__hasParameter(&t, &nm) == (pos >= 0) && verif_exc == 0, "hasParameter tells whether the name is present");
  unsigned long w = ParameterList__whichParameterHasName(&t, &nm);
  if (pos < 0) __CPROVER_assert(verif_exc == EXC_ParameterNotFoundException, "looking up an absent name raises ParameterNotFoundException");
  else __CPROVER_assert(verif_exc == 0 && w == (unsigned long)pos, "whichParameterHasName returns the position of the name");
  verif_exc = 0; Parameter *p = ParameterList__parameter(&t, &nm);
  if (pos >= 0) __CPROVER_assert(verif_exc == 0 && p == t.parameters_.d[pos], "parameter(name) addresses the named entry");
  else __CPROVER_assert(verif_exc == EXC_ParameterNotFoundException, "parameter(name) raises for an absent name");
  TARGET_UNCHANGED(t); CANARY(); }
"""

def generate_jobs(unit, tier):
    jobs = []
    bodies = [f['cname'] for f in FUNCS]
    nmax = 3 if tier == 'thorough' else 2
    def J(op, nt, ns, text, extra=''):
        jobs.append(dict(id='b_%s_t%d_s%d' % (op, nt, ns), kind='bounded', mode='bounded', entry='h', bodies=bodies, harness=text, unwind=max(max(nt, ns) + 4, nt + ns + 2), timeout=900,
                         defs='#define NT %d\n#define NS %d\n#define VEC_BCAP %d\n#define STR_BCAP 3\n%s' % (nt, ns, nt + ns + 2, extra),
                         bound='target list of %d and source of %d parameters, names in {a,b,c,d} (unique inside a list), values symbolic doubles in [-100,100], each target with or without a symbolic interval constraint, zero precision' % (nt, ns),
                         doc=op))
    for nt in range(0, nmax + 1):
        for ns in range(0, nmax + 1):
            for op in ('setParametersValues', 'matchParametersValues', 'setAllParametersValues', 'testParametersValues'):
                J(op, nt, ns, H[op])
            J('includeParameters', nt, ns, H['includeParameters'], '#define SHARE_OR_INCLUDE ParameterList__includeParameters\n#define SHARED 0\n')
            J('shareParameters', nt, ns, H['includeParameters'], '#define SHARE_OR_INCLUDE ParameterList__shareParameters\n#define SHARED 1\n')
            J('createSubList', nt, ns, H['subList'], '#define SUBLIST ParameterList__createSubList_names\n#define SHARED 0\n')
            J('shareSubList', nt, ns, H['subList'], '#define SUBLIST ParameterList__shareSubList_names\n#define SHARED 1\n')
            if ns <= nt + 1:
                J('deleteParameters_idx', nt, ns, H['deleteParameters_idx'])
        J('addParameter', nt, 1, H['addParameter'])
        J('deleteParameter_name', nt, 1, H['deleteParameter_name'])
        J('lookup', nt, 1, H['lookup'])
        J('copy_ctor', nt, min(nt, 1), H['copy'], '#define COPY_STMT ParameterList__ctor_copy(&c, &t);\n')
        J('copy_assign', nt, min(nt, 1), H['copy'], '#define COPY_STMT ParameterList__ctor_0(&c); ParameterList__op_assign(&c, &t);\n')
    return jobs
