"""C07 - vector reductions match their definitions and are overflow-safe in log space (DESIGN.md section 4, C07)."""
PROPERTY = 'C07'
LEVEL = 'proof'

INST = r'''
#include <Bpp/Numeric/VectorTools.h>
#include <Bpp/Numeric/NumTools.h>
using namespace bpp;
double verif_inst(std::vector<double>& v, std::vector<double>& w, double x, std::vector<int>& vi, std::vector<int>& wi, int xi)
{
  std::vector<double> r = v + w; r = v - w; r = v * w; r = v / w; v += w; v -= w; v *= w; v /= w;
  std::vector<int> ri = vi + wi; ri = vi * wi;
  double s = VectorTools::sum(v) + VectorTools::prod(v) + VectorTools::sumProd(v, w) + VectorTools::min(v) + VectorTools::max(v);
  s += VectorTools::logSumExp(v, w) + VectorTools::sumExp(v, w) + VectorTools::scalar<double, double>(v, w) + VectorTools::mean<double, double>(v);
  s += (double)(VectorTools::whichMax(v) + VectorTools::whichMin(v) + VectorTools::which(v, x) + VectorTools::contains(v, x));
  r = VectorTools::cumProd(v); r = VectorTools::range(v);
  std::vector<size_t> pos = VectorTools::whichAll(v, x); pos = VectorTools::whichMaxAll(v); pos = VectorTools::whichMinAll(v);
  r = VectorTools::rep(v, pos.size()); r = VectorTools::vectorIntersection(v, w);
  s += (double)VectorTools::containsAll(v, w); VectorTools::diff(v, w, r); VectorTools::append(v, w);
  int si = VectorTools::sum(vi) + VectorTools::prod(vi) + VectorTools::sumProd(vi, wi) + VectorTools::max(vi) + VectorTools::min(vi) + VectorTools::scalar<int, int>(vi, wi);
  std::vector<size_t> posi = VectorTools::whichAll(vi, xi); posi = VectorTools::whichMaxAll(vi); posi = VectorTools::whichMinAll(vi); si += VectorTools::min(vi) + (int)VectorTools::whichMin(vi);
  ri = VectorTools::seq(xi, si, 1); ri = VectorTools::rep(vi, posi.size()); ri = VectorTools::vectorIntersection(vi, wi); si += (int)VectorTools::containsAll(vi, wi) + (int)VectorTools::contains(vi, xi);
  ri = VectorTools::cumProd(vi); si += (int)VectorTools::whichMax(vi) + (int)VectorTools::which(vi, xi);
  return s + si + NumTools::logsum(x, s);
}
'''
TUS = {'vt': dict(src=INST, filter='bpp::VectorTools'),
       'st': dict(src='#include "/repo/src/Bpp/Numeric/Stat/StatTools.cpp"\n', filter='bpp::StatTools', flags=['-I/repo/src/Bpp/Numeric/Stat']),
       'ops': dict(src=INST, filter='bpp::operator'),
       'nt': dict(src=INST, filter='bpp::NumTools')}
VD = 'std::vector<double>'
VI = 'std::vector<int>'
OPS = {'+': 'plus', '-': 'minus', '*': 'mul', '/': 'div'}
free = {('abs', 1): 'verif_abs_i', ('exp', 1): 'verif_exp', ('log', 1): 'verif_log_ax', ('isinf', 1): 'verif_isinf', ('sort', 2): [('PValue', 'verif_sort_pvalue'), ('double', 'verif_sort_double'), ('int', 'verif_sort_int')], ('append', 2): 'verif_append_double', ('contains', 2): [('std::vector<double>', 'VectorTools__contains'), ('std::vector<int>', 'VectorTools__contains_i')],
        ('max',): [('double (const std::vector<double> &)', 'VectorTools__max'), ('int (const std::vector<int> &)', 'VectorTools__max_i')],
        ('min',): [('double (const std::vector<double> &)', 'VectorTools__min'), ('int (const std::vector<int> &)', 'VectorTools__min_i')],
        ('whichMax',): [('(const std::vector<double> &)', 'VectorTools__whichMax'), ('(const std::vector<int> &)', 'VectorTools__whichMax_i')],
        ('whichMin',): [('(const std::vector<double> &)', 'VectorTools__whichMin'), ('(const std::vector<int> &)', 'VectorTools__whichMin_i')],
        ('sum',): [('double (const std::vector<double> &)', 'VectorTools__sum'), ('int (const std::vector<int> &)', 'VectorTools__sum_i')]}
CFG = dict(types={}, plain=set(), rename={}, free=free, throws=set(),
           # double * and / are uninterpreted functions in this unit (values of real-valued products are not decided here; the
           # value clauses are checked on the int instantiations, and computeFdr against the same uninterpreted operators)
           uf_ops={'*': 'verif_uf_mul', '/': 'verif_uf_div'},
           range_for={VD: ('Vec_double__size', 'Vec_double__op_index'), VI: ('Vec_int__size', 'Vec_int__op_index')})
PV = 'bpp::StatTools::PValue_'
STRUCTS = [PV]
CFG['plain'].add(PV)
PRE_STRUCTS = r'''
#include "vec.h"
#include "libm.h"
VEC_DECL(double, Vec_double)
VEC_DECL(int, Vec_int)
VEC_DECL(unsigned long, Vec_ulong)
typedef struct StatTools_PValue StatTools_PValue;
'''
PRELUDE = r'''
static inline int verif_abs_i(int x) { return x < 0 ? -x : x; }
static inline _Bool verif_isinf(double x) { return x == VERIF_PINF || x == VERIF_MINF; }
/* exp: uninterpreted with the axioms exp >= 0 (NaN for NaN), exp(-inf) = 0, exp(+inf) = +inf, exp(0) = 1, exp(x) <= 1 for x <= 0 */
static inline double verif_exp(double x) {
  if (x != x) return x;
  if (x == VERIF_MINF) return 0.0;
  if (x == VERIF_PINF) return VERIF_PINF;
  if (x == 0.0) return 1.0;
  double r = __CPROVER_uninterpreted_exp(x);
  __CPROVER_assume(r >= 0.0 && (x > 0.0 || r <= 1.0) && (x < 0.0 || r >= 1.0));   /* TRUSTED axioms of exp */
  return r;
}
/* log with the sign axioms needed by logsum: log(x) >= 0 for x >= 1, log(x) <= 0 for 0 <= x <= 1 */
static inline double verif_log_ax(double x) { double r = verif_log(x); __CPROVER_assume(!(x >= 1.0) || r >= 0.0); __CPROVER_assume(!(x >= 0.0 && x <= 1.0) || r <= 0.0);   /* TRUSTED axioms of log */
  return r; }
VEC_DECL(StatTools_PValue, Vec_StatTools_PValue)
#ifdef VERIF_MODE_BOUNDED
static inline void verif_sort_int(int *first, int *last) {   /* std::sort on vector<int>: insertion sort */
  long n = last - first;
  for (long i = 1; i < VEC_BCAP; ++i) if (i < n) { int x = first[i]; long j = i;
    for (long k = 0; k < VEC_BCAP; ++k) { if (!(j > 0 && x < first[j - 1])) break; first[j] = first[j - 1]; --j; }
    first[j] = x; } }
_Bool StatTools_PValue__op_lt(StatTools_PValue *self, StatTools_PValue *pvalue);
static inline void verif_sort_pvalue(StatTools_PValue *first, StatTools_PValue *last) {   /* std::sort with PValue_::operator< : insertion sort */
  long n = last - first;
  for (long i = 1; i < VEC_BCAP; ++i) if (i < n) { StatTools_PValue x = first[i]; long j = i;
    for (long k = 0; k < VEC_BCAP; ++k) { if (!(j > 0 && StatTools_PValue__op_lt(&x, &first[j - 1]))) break; first[j] = first[j - 1]; --j; }
    first[j] = x; } }
#endif
#ifndef VERIF_MODE_BOUNDED
/* std::sort on a vector<double>: permutes the elements in place (contents unspecified afterwards: an over-approximation that is enough for index safety) */
void verif_sort_double(double *first, double *last)
  __CPROVER_requires(__CPROVER_same_object(first, last))
  __CPROVER_assigns(__CPROVER_object_whole(first));
/* vec1.insert(vec1.end(), vec2.begin(), vec2.end()) (VectorTools::append): lengths add up, storage may move */
void verif_append_double(Vec_double *v1, const Vec_double *v2)
  __CPROVER_requires(v1->n + v2->n <= VEC_CAP)
  __CPROVER_ensures(v1->n == __CPROVER_old(v1->n) + v2->n && __CPROVER_is_fresh(v1->d, v1->n * sizeof(double)))
  __CPROVER_assigns(v1->d, v1->n);
#endif
#define VOBJ(v) (__CPROVER_is_fresh(v, sizeof(*(v))) && VEC_FRESH(v))
unsigned long verif_gk;   /* ghost index, universally quantified */
'''
STUB_CONTRACTS = {'Vec_ulong__ctor_2', 'verif_sort_double', 'verif_append_double', 'Vec_double__ctor_copy', 'Vec_double__make_copy', 'Vec_double__resize', 'Vec_double__ctor_1', 'Vec_int__ctor_1', 'Vec_double__push_back', 'Vec_ulong__push_back'}

def L(var, bound, assigns=(), inv=(), dec=None):
    a = ', '.join([var] + list(assigns))
    return dict(assigns=a, invariant=['%s <= %s' % (var, bound)] + list(inv), decreases=dec or '%s - %s' % (bound, var))

FUNCS = []
DIM = 'verif_exc == EXC_DimensionException'
EMPTY = 'verif_exc == EXC_EmptyVectorException'
MIR2 = {'v1': [('unsigned long', 'n')], 'v2': [('unsigned long', 'n')]}
for op, nm in OPS.items():
    FUNCS.append(dict(cname='op_%s_vv' % nm, qname='bpp::operator' + op, targs=['double'], sig='(const std::vector<double> &, const std::vector<double> &)',
        requires=['VOBJ(v1)', 'VOBJ(v2)'],
        ensures=['(verif_exc != 0) == (v1->n != v2->n)', 'verif_exc == 0 || ' + DIM, 'verif_exc == 0 ==> __CPROVER_return_value.n == v1->n'],
        assigns=['verif_exc'], mirror=MIR2, cex_requires=['v1->n <= 3 && v2->n <= 3'],
        loops={1: L('i', 'size', assigns=['__CPROVER_object_whole(result.d)'], inv=['size == v1->n && size == v2->n && result.n == size'])}))
    FUNCS.append(dict(cname='op_%seq_vv' % nm, qname='bpp::operator%s=' % op, targs=['double'], sig='(std::vector<double> &, const std::vector<double> &)',
        requires=['VOBJ(v1)', 'VOBJ(v2)'],
        # size mismatches are reported by the documented exception and never lead to an out-of-range access
        ensures=['(verif_exc != 0) == (v1->n != v2->n)', 'verif_exc == 0 || ' + DIM, 'v1->n == __CPROVER_old(v1->n)'],
        assigns=['verif_exc', '__CPROVER_object_whole(v1->d)'], mirror=MIR2, cex_requires=['v1->n <= 3 && v2->n <= 3'],
        loops={1: L('i', 'v1->n', assigns=['__CPROVER_object_whole(v1->d)'])}))

def VT(name, cname, targs, **k):
    FUNCS.append(dict(cname=cname, qname='bpp::VectorTools::' + name, targs=targs, **k))

M1 = {'v1': [('unsigned long', 'n')]}
MV = {'v': [('unsigned long', 'n')]}
VT('sum', 'VectorTools__sum', ['double'], requires=['VOBJ(v1)'], ensures=['verif_exc == 0'], assigns=[],
   loops={1: L('verif_i1', 'verif_rng1->n', assigns=['s'])})
VT('prod', 'VectorTools__prod', ['double'], requires=['VOBJ(v1)'], ensures=['verif_exc == 0'], assigns=[],
   loops={1: L('verif_i1', 'verif_rng1->n', assigns=['p'])})
VT('cumProd', 'VectorTools__cumProd', ['double'], requires=['VOBJ(v1)'], ensures=['verif_exc == 0', '__CPROVER_return_value.n == v1->n'], assigns=[],
   loops={1: L('i', 'v1->n', assigns=['__CPROVER_object_whole(p.d)'], inv=['i >= 1', 'p.n == v1->n'], dec='v1->n - i')})
VT('sumProd', 'VectorTools__sumProd', ['double'], requires=['VOBJ(v1)', 'VOBJ(v2)'],
   # no element access on an empty input
   ensures=['(verif_exc != 0) == (v1->n != v2->n)', 'verif_exc == 0 || ' + DIM], assigns=['verif_exc'], mirror=MIR2, cex_requires=['v1->n <= 3 && v2->n <= 3'],
   loops={1: L('i', 'size', assigns=['x'], inv=['size == v1->n && size == v2->n'], dec='size - i')})
VT('scalar', 'VectorTools__scalar', ['double', 'double'], sig='(const std::vector<double> &, const std::vector<double> &)', requires=['VOBJ(v1)', 'VOBJ(v2)'],
   ensures=['(verif_exc != 0) == (v1->n != v2->n)', 'verif_exc == 0 || ' + DIM], assigns=['verif_exc'],
   loops={1: L('i', 'v1->n', assigns=['result'])})
for nm, cmpop in (('max', '>='), ('min', '<=')):
    VT(nm, 'VectorTools__' + nm, ['double'], requires=['VOBJ(v)'],
       # empty input <=> EmptyVectorException; otherwise the result bounds every element (ghost index) and is an element
       ensures=['(verif_exc != 0) == (v->n == 0)', 'verif_exc == 0 || ' + EMPTY,
                '(verif_exc == 0 && verif_gk < v->n && !VERIF_ISNAN(v->d[verif_gk]) && !VERIF_ISNAN(v->d[0])) ==> __CPROVER_return_value %s v->d[verif_gk]' % cmpop],
       assigns=['verif_exc'], harness_pre=['verif_gk = nondet_ulong();'], mirror=MV, cex_requires=['v->n <= 3'],
       loops={1: L('i', 'v->n', assigns=[nm + 'i'], inv=['i >= 1', '!VERIF_ISNAN(v->d[0]) ==> !VERIF_ISNAN(%si)' % nm, '(verif_gk < i && !VERIF_ISNAN(v->d[verif_gk]) && !VERIF_ISNAN(v->d[0])) ==> %si %s v->d[verif_gk]' % (nm, cmpop)], dec='v->n - i')})
for nm, cmpop in (('whichMax', '>='), ('whichMin', '<=')):
    var = 'maxi' if nm == 'whichMax' else 'mini'
    VT(nm, 'VectorTools__' + nm, ['double'], requires=['VOBJ(v)'],
       ensures=['(verif_exc != 0) == (v->n == 0)', 'verif_exc == 0 || ' + EMPTY, 'verif_exc == 0 ==> __CPROVER_return_value < v->n',
                '(verif_exc == 0 && verif_gk < v->n && !VERIF_ISNAN(v->d[verif_gk]) && !VERIF_ISNAN(v->d[0])) ==> v->d[__CPROVER_return_value] %s v->d[verif_gk]' % cmpop],
       assigns=['verif_exc'], harness_pre=['verif_gk = nondet_ulong();'], mirror=MV, cex_requires=['v->n <= 3'],
       loops={1: L('i', 'v->n', assigns=[var, 'pos'], inv=['i >= 1', 'pos < i', '!VERIF_ISNAN(v->d[0]) ==> !VERIF_ISNAN(%s)' % var, '%s == v->d[pos] || (VERIF_ISNAN(%s) && VERIF_ISNAN(v->d[pos]))' % (var, var),
                                                            '(verif_gk < i && !VERIF_ISNAN(v->d[verif_gk]) && !VERIF_ISNAN(v->d[0])) ==> %s %s v->d[verif_gk]' % (var, cmpop)], dec='v->n - i')})
VT('range', 'VectorTools__range', ['double'], requires=['VOBJ(v)'],
   ensures=['(verif_exc != 0) == (v->n == 0)', 'verif_exc == 0 || ' + EMPTY, 'verif_exc == 0 ==> __CPROVER_return_value.n == 2'], assigns=['verif_exc'],
   loops={1: L('i', 'v->n', assigns=['__CPROVER_object_whole(r.d)'], inv=['i >= 1', 'r.n == 2'], dec='v->n - i')})
VT('which', 'VectorTools__which', ['double'], requires=['VOBJ(v)', '__CPROVER_is_fresh(which, sizeof(double))'],
   # first index holding the value, ElementNotFoundException iff absent (ghost index)
   ensures=['verif_exc == 0 || verif_exc == EXC_ElementNotFoundException', 'verif_exc == 0 ==> (__CPROVER_return_value < v->n && v->d[__CPROVER_return_value] == *which)',
            '(verif_exc == 0 && verif_gk < __CPROVER_return_value) ==> v->d[verif_gk] != *which',
            '(verif_exc != 0 && verif_gk < v->n) ==> v->d[verif_gk] != *which'],
   assigns=['verif_exc'], harness_pre=['verif_gk = nondet_ulong();'],
   loops={1: L('i', 'v->n', inv=['verif_gk < i ==> v->d[verif_gk] != *which', 'verif_exc == 0'])})
VT('contains', 'VectorTools__contains', ['double'], requires=['VOBJ(vec)'],
   ensures=['verif_exc == 0', '__CPROVER_return_value ==> vec->n > 0', '(!__CPROVER_return_value && verif_gk < vec->n) ==> vec->d[verif_gk] != el'],
   assigns=[], harness_pre=['verif_gk = nondet_ulong();'],
   loops={1: L('verif_i1', 'verif_rng1->n', inv=['verif_gk < verif_i1 ==> vec->d[verif_gk] != el'])})
GK = ['verif_gk = nondet_ulong();']
VT('whichAll', 'VectorTools__whichAll', ['double'], requires=['VOBJ(v)', '__CPROVER_is_fresh(which, sizeof(double))'],
   # every position is visited without an out-of-range access; ElementNotFoundException only when no element equals the value (ghost index)
   ensures=['verif_exc == 0 || verif_exc == EXC_ElementNotFoundException',
            'verif_exc == 0 ==> (__CPROVER_return_value.n >= 1 && __CPROVER_return_value.n <= v->n)',
            '(verif_exc != 0 && verif_gk < v->n) ==> v->d[verif_gk] != *which'],
   assigns=['verif_exc'], harness_pre=GK,
   loops={1: L('i', 'v->n', assigns=['w.d', 'w.n'], inv=['w.n <= i', 'verif_exc == 0', '(w.n == 0 && verif_gk < i) ==> v->d[verif_gk] != *which'])})
for nm, ext in (('whichMaxAll', 'max'), ('whichMinAll', 'min')):
    VT(nm, 'VectorTools__' + nm, ['double'], requires=['VOBJ(v)'],
       ensures=['(verif_exc != 0) == (v->n == 0)', 'verif_exc == 0 || ' + EMPTY, 'verif_exc == 0 ==> __CPROVER_return_value.n <= v->n'],
       assigns=['verif_exc'], mirror=MV, cex_requires=['v->n <= 3'],
       loops={1: L('i', 'v->n', assigns=['pos.d', 'pos.n'], inv=['pos.n <= i', 'verif_exc == 0'])})
VT('rep', 'VectorTools__rep', ['double'], requires=['VOBJ(vec)', 'n <= VEC_CAP && vec->n * n <= VEC_CAP'],
   # length of the repetition; the modular index never leaves the input (an empty input is never indexed)
   ensures=['verif_exc == 0', '__CPROVER_return_value.n == vec->n * n'], assigns=[],
   loops={1: L('i', 'v.n', assigns=['__CPROVER_object_whole(v.d)'], inv=['v.n == vec->n * n'])})
VT('vectorIntersection', 'VectorTools__vectorIntersection', ['double'], sig='(const std::vector<double> &, const std::vector<double> &)', requires=['VOBJ(vec1)', 'VOBJ(vec2)'],
   ensures=['verif_exc == 0', '__CPROVER_return_value.n <= vec1->n', 'vec2->n == 0 ==> __CPROVER_return_value.n == 0'], assigns=[],
   loops={1: L('verif_i1', 'verif_rng1->n', assigns=['interEl.d', 'interEl.n'], inv=['interEl.n <= verif_i1', 'verif_exc == 0', 'vec2->n == 0 ==> interEl.n == 0'])})
VT('containsAll', 'VectorTools__containsAll', ['double'], requires=['VOBJ(v1)', 'VOBJ(v2)'],
   # containment of anything in an empty vector is decided without reading it; every index stays inside its (sorted) vector
   ensures=['verif_exc == 0', 'v1->n == __CPROVER_old(v1->n) && v2->n == __CPROVER_old(v2->n)', 'v2->n == 0 ==> __CPROVER_return_value', '(v1->n == 0 && v2->n > 0) ==> !__CPROVER_return_value'],
   assigns=['__CPROVER_object_whole(v1->d)', '__CPROVER_object_whole(v2->d)'], mirror=MIR2, cex_requires=['v1->n <= 3 && v2->n <= 3'],
   loops={1: L('i', 'v2->n', assigns=['j'], inv=['v1->n > 0', 'j < v1->n']),
          2: dict(assigns='j', invariant=['j < v1->n'], decreases='v1->n - j')})
VT('diff', 'VectorTools__diff', ['double'], requires=['VOBJ(v1)', 'VOBJ(v2)', 'VOBJ(v3)', 'v1->n + v3->n <= VEC_CAP'],
   # the difference with an empty vector never reads it; the output grows by at most the number of elements of the first operand
   ensures=['verif_exc == 0', 'v1->n == __CPROVER_old(v1->n) && v2->n == __CPROVER_old(v2->n)', 'v3->n >= __CPROVER_old(v3->n) && v3->n <= __CPROVER_old(v3->n) + v1->n',
            'v2->n == 0 ==> v3->n == __CPROVER_old(v3->n) + v1->n'],
   assigns=['__CPROVER_object_whole(v1->d)', '__CPROVER_object_whole(v2->d)', 'v3->d', 'v3->n'], mirror={'v1': [('unsigned long', 'n')], 'v2': [('unsigned long', 'n')], 'v3': [('unsigned long', 'n')]}, cex_requires=['v1->n <= 3 && v2->n <= 3 && v3->n <= 3'],
   loops={1: L('i', 'v1->n', assigns=['j', 'v3->d', 'v3->n'], inv=['v2->n > 0', 'j < v2->n', 'v3->n >= __CPROVER_loop_entry(v3->n) && v3->n <= __CPROVER_loop_entry(v3->n) + i']),
          2: dict(assigns='j', invariant=['j < v2->n'], decreases='v2->n - j')})
VT('mean', 'VectorTools__mean', ['double', 'double'], sig='(const std::vector<double> &)', requires=['VOBJ(v1)'], ensures=['verif_exc == 0'], assigns=[])
for nm in ('logSumExp', 'sumExp'):
    VT(nm, 'VectorTools__' + nm + '_w', ['double'], sig='(const std::vector<double> &, const std::vector<double> &)', requires=['VOBJ(v1)', 'VOBJ(v2)'],
       # size mismatch <=> DimensionException; no access beyond either vector; an empty input is reported by exception, never read
       ensures=['verif_exc == 0 || ' + DIM + ' || verif_exc == EXC_BadNumberException || ' + EMPTY, '(' + DIM + ') == (v1->n != v2->n)'],
       assigns=['verif_exc'], mirror=MIR2, cex_requires=['v1->n <= 3 && v2->n <= 3'],
       loops={1: L('i', 'size', assigns=['x'], inv=['i >= 1', 'size == v1->n && size == v2->n'], dec='size - i')})

FUNCS += [
    dict(cname='NumTools__logsum', qname='bpp::NumTools::logsum', targs=['double'],
         requires=['!VERIF_ISNAN(lnx) && !VERIF_ISNAN(lny)'],
         ensures=[# the pairwise log-sum of two log-zeros is log-zero
                  '(lnx == VERIF_MINF && lny == VERIF_MINF) ==> __CPROVER_return_value == VERIF_MINF',
                  # it lies above the larger argument
                  '(VERIF_ISFINITE(lnx) && VERIF_ISFINITE(lny)) ==> __CPROVER_return_value >= (lnx > lny ? lnx : lny)',
                  # a log-zero argument is neutral up to log(1 + 0)
                  '(lnx == VERIF_MINF && VERIF_ISFINITE(lny)) ==> __CPROVER_return_value >= lny',
                  '(lny == VERIF_MINF && VERIF_ISFINITE(lnx)) ==> __CPROVER_return_value >= lnx',
                  # finite for finite arguments of magnitude up to 1e300 (never NaN, never +inf through overflow of the naive formula)
                  '(lnx >= -1e300 && lnx <= 1e300 && lny >= -1e300 && lny <= 1e300) ==> !VERIF_ISNAN(__CPROVER_return_value)'],
         assigns=[], split=True),
    dict(cname='StatTools_PValue__ctor_2', qname='bpp::StatTools::PValue_::PValue_', sig='void (double, size_t)'),
    dict(cname='StatTools_PValue__op_lt', qname='bpp::StatTools::PValue_::operator<'),
    dict(cname='StatTools__computeFdr', qname='bpp::StatTools::computeFdr'),
]
INT = [('sum', 'VectorTools__sum_i'), ('prod', 'VectorTools__prod_i'), ('cumProd', 'VectorTools__cumProd_i'), ('sumProd', 'VectorTools__sumProd_i'),
       ('max', 'VectorTools__max_i'), ('min', 'VectorTools__min_i'), ('whichMax', 'VectorTools__whichMax_i'), ('which', 'VectorTools__which_i'),
       ('whichMin', 'VectorTools__whichMin_i'), ('whichAll', 'VectorTools__whichAll_i'), ('whichMaxAll', 'VectorTools__whichMaxAll_i'), ('whichMinAll', 'VectorTools__whichMinAll_i'), ('seq', 'VectorTools__seq_i'), ('rep', 'VectorTools__rep_i'), ('containsAll', 'VectorTools__containsAll_i'), ('contains', 'VectorTools__contains_i')]
VT('vectorIntersection', 'VectorTools__vectorIntersection_i', ['int'], sig='(const std::vector<int> &, const std::vector<int> &)')
for nm, cn in INT:
    VT(nm, cn, ['int'])
VT('scalar', 'VectorTools__scalar_i', ['int', 'int'], sig='(const std::vector<int> &, const std::vector<int> &)')
FUNCS.append(dict(cname='op_plus_vv_i', qname='bpp::operator+', targs=['int'], sig='(const std::vector<int> &, const std::vector<int> &)'))
FUNCS.append(dict(cname='op_mul_vv_i', qname='bpp::operator*', targs=['int'], sig='(const std::vector<int> &, const std::vector<int> &)'))

BH = r'''
#define FOR(i, n) for (unsigned long i = 0; i < (unsigned long)(n); ++i)
int in_a[N1 + 1], in_b[N2 + 1], in_x, in_f, in_t, in_by; unsigned long in_n;
static void mkv(Vec_int *v, int *src, unsigned long n) { v->d = (int*)verif_new_array(VEC_BCAP, sizeof(int)); v->n = n; FOR(i, n) { src[i] = nondet_int(); __CPROVER_assume(src[i] >= -DOM && src[i] <= DOM); v->d[i] = src[i]; } }
void h(void) { Vec_int a, b; mkv(&a, in_a, N1); mkv(&b, in_b, N2); verif_exc = 0;
  /* definitions over integers, computed by straight-line loops */
  { int r = VectorTools__sum_i(&a); int s = 0; FOR(i, N1) s += in_a[i]; __CPROVER_assert(verif_exc == 0 && r == s, "sum is the sum of the elements (0 for an empty vector)"); }
  { int r = VectorTools__prod_i(&a); int s = 1; FOR(i, N1) s *= in_a[i]; __CPROVER_assert(verif_exc == 0 && r == s, "prod is the product of the elements (1 for an empty vector)"); }
  { Vec_int r = VectorTools__cumProd_i(&a); __CPROVER_assert(verif_exc == 0 && r.n == N1, "cumProd has the length of its input"); int s = 1; FOR(i, N1) { s *= in_a[i]; __CPROVER_assert(r.d[i] == s, "cumProd holds the prefix products"); } }
  { verif_exc = 0; int r = VectorTools__sumProd_i(&a, &b);
    if (N1 != N2) __CPROVER_assert(verif_exc == EXC_DimensionException, "sumProd: size mismatch is reported by DimensionException");
    else { int s = 0; FOR(i, N1) s += in_a[i] * in_b[i]; __CPROVER_assert(verif_exc == 0 && r == s, "sumProd is the sum of the products"); } }
  { verif_exc = 0; int r = VectorTools__scalar_i(&a, &b);
    if (N1 != N2) __CPROVER_assert(verif_exc == EXC_DimensionException, "scalar: size mismatch is reported by DimensionException");
    else { int s = 0; FOR(i, N1) s += in_a[i] * in_b[i]; __CPROVER_assert(verif_exc == 0 && r == s, "scalar product by definition"); } }
  { verif_exc = 0; Vec_int r = op_plus_vv_i(&a, &b);
    if (N1 != N2) __CPROVER_assert(verif_exc == EXC_DimensionException, "operator+: size mismatch is reported by DimensionException");
    else { __CPROVER_assert(verif_exc == 0 && r.n == N1, "operator+ length"); FOR(i, N1) __CPROVER_assert(r.d[i] == in_a[i] + in_b[i], "operator+ is element-wise"); } }
  { verif_exc = 0; Vec_int r = op_mul_vv_i(&a, &b);
    if (N1 == N2) { __CPROVER_assert(verif_exc == 0 && r.n == N1, "operator* length"); FOR(i, N1) __CPROVER_assert(r.d[i] == in_a[i] * in_b[i], "operator* is element-wise"); } }
  { verif_exc = 0; int r = VectorTools__max_i(&a);
    if (N1 == 0) __CPROVER_assert(verif_exc == EXC_EmptyVectorException, "max of an empty vector raises EmptyVectorException");
    else { _Bool isel = 0; FOR(i, N1) { __CPROVER_assert(r >= in_a[i], "max bounds every element"); isel = isel || r == in_a[i]; } __CPROVER_assert(verif_exc == 0 && isel, "max is an element"); } }
  { verif_exc = 0; unsigned long r = VectorTools__whichMax_i(&a);
    if (N1 != 0) { __CPROVER_assert(verif_exc == 0 && r < N1, "whichMax is an index"); FOR(i, N1) { __CPROVER_assert(in_a[r] >= in_a[i], "whichMax points at a maximum"); if (i < r) __CPROVER_assert(in_a[i] < in_a[r], "whichMax is the first position of the maximum"); } } }
  /* all positions of the extrema / of a value: exactly the matching indices, in increasing order */
  { verif_exc = 0; Vec_ulong r = VectorTools__whichMaxAll_i(&a);
    if (N1 == 0) __CPROVER_assert(verif_exc == EXC_EmptyVectorException, "whichMaxAll of an empty vector raises EmptyVectorException");
    else { int m = in_a[0]; FOR(i, N1) if (in_a[i] > m) m = in_a[i]; unsigned long c = 0;
      FOR(i, N1) if (in_a[i] == m) { __CPROVER_assert(c < r.n && r.d[c] == i, "whichMaxAll lists every position of the maximum, in increasing order"); c++; }
      __CPROVER_assert(verif_exc == 0 && r.n == c, "whichMaxAll lists only positions of the maximum"); } }
  { verif_exc = 0; Vec_ulong r = VectorTools__whichMinAll_i(&a);
    if (N1 == 0) __CPROVER_assert(verif_exc == EXC_EmptyVectorException, "whichMinAll of an empty vector raises EmptyVectorException");
    else { int m = in_a[0]; FOR(i, N1) if (in_a[i] < m) m = in_a[i]; unsigned long c = 0;
      FOR(i, N1) if (in_a[i] == m) { __CPROVER_assert(c < r.n && r.d[c] == i, "whichMinAll lists every position of the minimum, in increasing order"); c++; }
      __CPROVER_assert(verif_exc == 0 && r.n == c, "whichMinAll lists only positions of the minimum"); } }
  { verif_exc = 0; int x = nondet_int(); __CPROVER_assume(x >= -DOM && x <= DOM); in_x = x; Vec_ulong r = VectorTools__whichAll_i(&a, &x); unsigned long c = 0;
    FOR(i, N1) if (in_a[i] == x) { __CPROVER_assert(verif_exc == 0 && c < r.n && r.d[c] == i, "whichAll lists every position of the value, in increasing order"); c++; }
    if (c == 0) __CPROVER_assert(verif_exc == EXC_ElementNotFoundException, "whichAll raises ElementNotFoundException when the value is absent");
    else __CPROVER_assert(verif_exc == 0 && r.n == c, "whichAll lists only positions of the value"); }
  { verif_exc = 0; int r = VectorTools__min_i(&a);
    if (N1 == 0) __CPROVER_assert(verif_exc == EXC_EmptyVectorException, "min of an empty vector raises EmptyVectorException");
    else { _Bool isel = 0; FOR(i, N1) { __CPROVER_assert(r <= in_a[i], "min bounds every element"); isel = isel || r == in_a[i]; } __CPROVER_assert(verif_exc == 0 && isel, "min is an element"); } }
  { verif_exc = 0; unsigned long r = VectorTools__whichMin_i(&a);
    if (N1 != 0) { __CPROVER_assert(verif_exc == 0 && r < N1, "whichMin is an index"); FOR(i, N1) { __CPROVER_assert(in_a[r] <= in_a[i], "whichMin points at a minimum"); if (i < r) __CPROVER_assert(in_a[i] > in_a[r], "whichMin is the first position of the minimum"); } } }
  /* set-like helpers on the int instantiation */
  { verif_exc = 0; unsigned long n = nondet_ulong(); __CPROVER_assume(n <= 2 && N1 * n <= VEC_BCAP); in_n = n; Vec_int r = VectorTools__rep_i(&a, n);
    __CPROVER_assert(verif_exc == 0 && r.n == N1 * n, "rep has |v| * n elements"); FOR(i, VEC_BCAP) if (i < r.n) __CPROVER_assert(r.d[i] == in_a[i % (N1 ? N1 : 1)], "rep repeats the input cyclically"); }
  { verif_exc = 0; Vec_int r = VectorTools__vectorIntersection_i(&a, &b); unsigned long c = 0;
    FOR(i, N1) { _Bool inb = 0; FOR(j, N2) inb = inb || in_a[i] == in_b[j]; if (inb) { __CPROVER_assert(c < r.n && r.d[c] == in_a[i], "vectorIntersection keeps the elements of the first vector found in the second, in order"); c++; } }
    __CPROVER_assert(verif_exc == 0 && r.n == c, "vectorIntersection keeps nothing else"); }
  { verif_exc = 0; _Bool r = VectorTools__containsAll_i(&a, &b); _Bool all = 1;     /* sorts a and b: last use of both */
    FOR(j, N2) { _Bool ina = 0; FOR(i, N1) ina = ina || in_a[i] == in_b[j]; all = all && ina; }
    __CPROVER_assert(verif_exc == 0 && r == all, "containsAll <=> every element of the second vector occurs in the first"); }
  /* sequence generation: from (included) towards to by steps of size by > 0 */
  { verif_exc = 0; int f = nondet_int(), t = nondet_int(), by = nondet_int(); __CPROVER_assume(f >= -1 && f <= 1 && t >= -1 && t <= 1 && by >= 1 && by <= 2); in_f = f; in_t = t; in_by = by;
    Vec_int r = VectorTools__seq_i(f, t, by); unsigned long len = (unsigned long)((f < t ? t - f : f - t) / by) + 1;
    __CPROVER_assert(verif_exc == 0 && r.n == len, "seq has |from - to| / by + 1 elements");
    FOR(k, 3) if (k < r.n) __CPROVER_assert(r.d[k] == (f <= t ? f + (int)k * by : f - (int)k * by), "seq starts at from and moves towards to by the step"); }
  __CPROVER_assert(0, "verif_canary reachable after call"); }
'''
H_FDR = r'''
#define FOR(i, n) for (unsigned long i = 0; i < (unsigned long)(n); ++i)
double in_p[N1 + 1];
void h(void) { Vec_double pv; pv.d = (double*)verif_new_array(VEC_BCAP, sizeof(double)); pv.n = N1;
  FOR(i, N1) { in_p[i] = nondet_double(); __CPROVER_assume(in_p[i] >= 0.0 && in_p[i] <= 1.0); pv.d[i] = in_p[i]; }
  FOR(i, N1) FOR(j, N1) if (i < j) __CPROVER_assume(in_p[i] != in_p[j]);      /* distinct p-values: ranks are unambiguous */
  verif_exc = 0; Vec_double fdr = StatTools__computeFdr(&pv);
  __CPROVER_assert(verif_exc == 0 && fdr.n == N1, "computeFdr returns one value per p-value");
  /* Benjamini-Hochberg: fdr[k] = p[k] * n / rank(k), rank 1 = smallest p-value */
  FOR(k, N1) { unsigned long rank = 1; FOR(j, N1) if (in_p[j] < in_p[k]) rank++;
    double e = verif_uf_div(verif_uf_mul(in_p[k], (double)N1), (double)rank);
    __CPROVER_assert(fdr.d[k] == e || (fdr.d[k] != fdr.d[k] && e != e), "computeFdr: p * n / rank, rank counted from the smallest p-value"); }
  __CPROVER_assert(0, "verif_canary reachable after call"); }
'''
def generate_jobs(unit, tier):
    jobs = []
    ints = [f['cname'] for f in FUNCS if f['cname'].endswith('_i')]
    nmax = 4 if tier == 'thorough' else 3
    for n1 in range(0, nmax + 1):
        for n2 in sorted({n1, (n1 + 1) % (nmax + 1)}):
            jobs.append(dict(id='b_values_n%d_m%d' % (n1, n2), kind='bounded', mode='bounded', entry='h', bodies=ints, harness=BH, unwind=nmax + 3, timeout=600,
                             defs='#define N1 %d\n#define N2 %d\n#define DOM 2\n#define VEC_BCAP %d\n' % (n1, n2, nmax + 1),
                             bound='vector lengths %d and %d, integer entries in [-2, 2]' % (n1, n2), doc='sum, prod, cumProd, sumProd, scalar, + and * element-wise, max, min, whichMax, whichMin, whichMaxAll, whichMinAll, whichAll, seq (from, to in [-1,1], step 1 or 2), rep (n <= 2), vectorIntersection, containsAll against their definitions'))
        jobs.append(dict(id='b_fdr_n%d' % n1, kind='bounded', mode='bounded', entry='h', bodies=['StatTools_PValue__ctor_2', 'StatTools_PValue__op_lt', 'StatTools__computeFdr'],
                         harness=H_FDR, unwind=nmax + 3, timeout=600, defs='#define N1 %d\n#define VEC_BCAP %d\n' % (n1, nmax + 1),
                         bound='%d distinct p-values in [0,1] (symbolic doubles)' % n1, doc='false-discovery-rate adjustment against p*n/rank'))
    return jobs

LEMMAS = []
REPLAY = {'p_NumTools__logsum': dict(adapter='c07_misc.cpp'), 're:^b_fdr': dict(adapter='c07_misc.cpp'), 're:^b_values': dict(adapter='c07_misc.cpp'), 're:^p_op_': dict(adapter='c07_vec.cpp'), 're:^p_VectorTools__': dict(adapter='c07_vec.cpp')}
TRUSTED = ['std::vector model of stubs/vec.h; exp/log as uninterpreted functions with the axioms listed in stubs/libm.h and in the unit prelude (exp >= 0, exp(x) <= 1 for x <= 0, exp(-inf) = 0, log(0) = -inf)',
           'std::sort on vector<double> in the containsAll / diff proofs: assumed contract (rewrites the vector in place, length kept, contents unspecified); VectorTools::append (range insert): assumed contract (lengths add up, storage fresh)']
ASSUMPTIONS = ['vectors shorter than 65536 elements in the proofs (cap of the memory model; induction, no unwinding)', 'order-type postconditions assume the compared elements are not NaN',
               'operands of containsAll / diff / vectorIntersection are distinct objects; rep: |v| * n <= 65536']
NOT_DECIDED = ['upper bounds max + log n of the log-domain reductions, shift-equivariance (not exact in floating point), entropy / mutual information, sd / cor accuracy, functions built on lambdas or std::accumulate (fill, logSumExp(v), sumExp(v), logMeanExp, cumSum, countValues, shannon*, mi*, breaks)',
               'vectorUnion (is_fresh rejected in loop invariants), extract (quantified precondition on the positions), value results of diff; value results of containsAll / vectorIntersection / rep beyond the bounded runs (element contents after sort / push_back / resize are not tracked in the proofs)']
