"""C16 - text parsing never crashes, corrupts memory or hangs (listed entry points; DESIGN.md section 4, C16)."""
PROPERTY = 'C16'
LEVEL = 'proof'

TUS = {
    'tt': dict(src='#include "/repo/src/Bpp/Text/TextTools.cpp"\n', filter='bpp::TextTools', flags=['-I/repo/src/Bpp/Text']),
    'st': dict(src='#include "/repo/src/Bpp/Text/StringTokenizer.cpp"\n', filter='bpp::StringTokenizer', flags=['-I/repo/src/Bpp/Text']),
    'ft': dict(src='#include "/repo/src/Bpp/Io/FileTools.cpp"\n', filter='bpp::FileTools', flags=['-I/repo/src/Bpp/Io']),
    'nst': dict(src='#include "/repo/src/Bpp/Text/NestedStringTokenizer.cpp"\n', filter='bpp::NestedStringTokenizer', flags=['-I/repo/src/Bpp/Text']),
}
S = 'std::basic_string<char>'
DQ = 'std::deque<std::basic_string<char>>'
ST = 'bpp::StringTokenizer'
NST = 'bpp::NestedStringTokenizer'
CFG = dict(
    types={},
    plain=set(),
    rename={
        (S, 'find_first_of', 2, 'args:Str,unsigned long'): 'Str__find_first_of_d',
        (S, 'find_first_not_of', 2, 'args:Str,unsigned long'): 'Str__find_first_not_of_d',
        (S, 'find', 2, 'args:Str,unsigned long'): 'Str__find',
        (S, 'find', 2, 'args:char,default'): 'Str__find_c',
        (S, 'find_last_of', 2, 'args:char*,default'): 'Str__find_last_of_lit',
        (S, 'find_last_of', 2, 'args:char,default'): 'Str__find_last_of_c',
        (S, 'operator+=', 1, 'args:char'): 'Str__op_pluseq_c',
        (S, 'operator=', 1, 'args:char*'): 'Str__op_assign_lit',
        ('ctor', ST, 0): 'StringTokenizer__ctor_0',
        (S, 'operator+=', 1, 'args:Str'): 'Str__op_pluseq',
        (S, 'operator[]', 1): 'Str__op_index',
        (S, 'erase', 2): 'Str__erase_range',
        (DQ, 'erase', 1): 'Deq_Str__erase',
        ('ctor', S, 1, 'void (const char *, const std::allocator<char> &)'): 'Str__ctor_cstr',
    },
    free={('count', 2): 'TextTools__count', ('hasSubstring', 2): 'TextTools__hasSubstring', ('isEmpty', 1): 'TextTools__isEmpty', ('isDecimalNumber', 1): 'TextTools__isDecimalNumber_c', ('isDecimalNumber', 3): 'TextTools__isDecimalNumber',
          ('isDecimalInteger', 2): 'TextTools__isDecimalInteger', ('stoi', 3): 'verif_stoi', ('stod', 2): 'verif_stod', ('stol', 3): 'verif_stoi', ('stoul', 3): 'verif_stoi', ('isdigit', 1): 'verif_isdigit', ('isspace', 1): 'verif_isspace',
          ('fromString', 1): [('int (const std::string &)', 'TextTools__fromString_int'), ('double (const std::string &)', 'TextTools__fromString_double')],
          ('operator==', S, 'char'): 'Str__eq_cstr', ('operator==', S, S): 'Str__eq', ('operator+', S, S): 'Str__concat'},
    consts={'npos': 'STR_NPOS'},
    defaults={('verif_stoi', 1): '0', ('verif_stoi', 2): '10', ('verif_stod', 1): '0', ('Str__substr', 1): 'STR_NPOS', ('Str__find_last_of_lit', 1): 'STR_NPOS', ('Str__find_last_of_c', 1): 'STR_NPOS', ('Str__find_c', 1): '0'},
    throws={'Str__substr', 'verif_stoi', 'verif_stod'},
)
STRUCTS = [ST, NST]
PRE_STRUCTS = r'''
#include "str.h"
#include "vec.h"
VEC_DECL(Str, Deq_Str)
VEC_DECL(Str, Vec_Str)
'''
PRELUDE = r'''
static inline int verif_isdigit(int c) { return c >= '0' && c <= '9'; }
static inline int verif_isspace(int c) { return c == ' ' || (c >= 9 && c <= 13); }
#define Str__find_last_of_lit(s, lit, pos) Str__find_last_of_n(s, lit, sizeof(lit) - 1)
/* s = "literal": only string literals reach this rule (sizeof gives the length) */
#define Str__op_assign_lit(s, lit) Str__op_assign_n(s, lit, sizeof(lit) - 1)
#ifdef VERIF_MODE_BOUNDED
static inline Str *Str__op_assign_n(Str *s, const char *p, unsigned long n) { verif_str_set(s, p, n); return s; }
#else
Str *Str__op_assign_n(Str *s, const char *p, unsigned long n)
  __CPROVER_requires(n < STR_CAP) __CPROVER_ensures(__CPROVER_return_value == s && s->n == n && __CPROVER_is_fresh(s->d, s->n + 1) && s->d[s->n] == 0) __CPROVER_assigns(s->d, s->n);
#endif
static inline unsigned long Str__find_c(const Str *s, char c, unsigned long pos) { char b[1]; b[0] = c; return Str__find_n(s, b, 1, pos); }
#ifndef VERIF_MODE_BOUNDED
/* TextTools::hasSubstring (std::search over the two strings): pure, value unspecified */
_Bool TextTools__hasSubstring(const Str *s, const Str *pattern) __CPROVER_requires(1) __CPROVER_ensures(1) __CPROVER_assigns();
#endif
static inline unsigned long Str__find_last_of_c(const Str *s, char c, unsigned long pos) { char b[1]; b[0] = c; return Str__find_last_of_n(s, b, 1); }
#ifdef VERIF_MODE_BOUNDED
static inline _Bool TextTools__isEmpty(const Str *s) { for (unsigned long i = 0; i < STR_BCAP; ++i) { if (i < s->n && !verif_isspace(s->d[i])) return 0; } return 1; }
#else
/* std::all_of(begin, end, isspace): true on the empty string */
_Bool TextTools__isEmpty(const Str *s) __CPROVER_requires(1) __CPROVER_ensures(s->n == 0 ==> __CPROVER_return_value) __CPROVER_assigns();
void Str__erase_range(Str *s, char *first, char *last)
  __CPROVER_requires(__CPROVER_same_object(first, s->d) && __CPROVER_same_object(last, s->d) && first >= s->d && first <= last && last <= s->d + s->n)
  __CPROVER_ensures(s->n == __CPROVER_old(s->n) - (unsigned long)(__CPROVER_old(last) - __CPROVER_old(first)) && __CPROVER_is_fresh(s->d, s->n + 1) && s->d[s->n] == 0)
  __CPROVER_assigns(s->d, s->n);
Str *Deq_Str__erase(Deq_Str *v, Str *pos)
  __CPROVER_requires(__CPROVER_same_object(pos, v->d) && pos >= v->d && pos < v->d + v->n)
  /* erase does not reallocate: same storage, one element fewer, the elements from pos on are overwritten */
  __CPROVER_ensures(v->n == __CPROVER_old(v->n) - 1 && v->d == __CPROVER_old(v->d) && __CPROVER_return_value == __CPROVER_old(pos))
  __CPROVER_assigns(v->n, __CPROVER_object_whole(v->d));
#endif
/* find_first_of / find_first_not_of of the tokenisers: "the byte at position k of THE string is in THE delimiter set" is a ghost array, so that
   loop invariants (which may not call functions) can carry the fact.  Sound only if every call inside one function under proof has the same
   (string, set) arguments: checked syntactically on the lowered text (must_match), the run aborts otherwise. */
#ifdef VERIF_MODE_BOUNDED
#define Str__find_first_of_d Str__find_first_of
#define Str__find_first_not_of_d Str__find_first_not_of
#else
extern _Bool verif_isdelim[__CPROVER_constant_infinity_uint];   /* unbounded array: array theory, no flattening */
unsigned long Str__find_first_of_d(const Str *s, const Str *set, unsigned long pos)
  __CPROVER_requires(1)
  __CPROVER_ensures(__CPROVER_return_value == STR_NPOS || (__CPROVER_return_value >= pos && __CPROVER_return_value < s->n && verif_isdelim[__CPROVER_return_value]))
  __CPROVER_assigns();
unsigned long Str__find_first_not_of_d(const Str *s, const Str *set, unsigned long pos)
  __CPROVER_requires(1)
  __CPROVER_ensures(__CPROVER_return_value == STR_NPOS || (__CPROVER_return_value >= pos && __CPROVER_return_value < s->n && !verif_isdelim[__CPROVER_return_value]))
  __CPROVER_assigns();
#endif
/* TextTools::count(s, pattern): std::search based; at most one match per start position (size() + 1 with an empty pattern) */
#ifdef VERIF_MODE_BOUNDED
/* executable: one match per start position (std::search restarted at it + 1, so matches may overlap); an empty pattern is left unspecified */
static inline unsigned long TextTools__count(const Str *s, const Str *pattern) { if (pattern->n == 0) { unsigned long r = nondet_ulong(); __CPROVER_assume(r <= s->n + 1); return r; }
  if (pattern->n == 1) { unsigned long c1 = 0; for (unsigned long i = 0; i < STR_BCAP; ++i) { if (i < s->n && s->d[i] == pattern->d[0]) c1++; } return c1; }
  unsigned long c = 0; for (unsigned long i = 0; i < STR_BCAP; ++i) { if (i + pattern->n <= s->n) { _Bool m = 1; for (unsigned long k = 0; k < STR_BCAP; ++k) { if (k < pattern->n && s->d[i + k] != pattern->d[k]) m = 0; } if (m) c++; } } return c; }
#else
unsigned long TextTools__count(const Str *s, const Str *pattern) __CPROVER_requires(1) __CPROVER_ensures(__CPROVER_return_value <= s->n + 1) __CPROVER_assigns();
#endif
/* std::stoi / std::stod and friends raise std::invalid_argument or std::out_of_range, which are not exceptions of the library */
#ifdef VERIF_MODE_BOUNDED
static inline int verif_stoi(const Str *s, unsigned long *idx, int base) { if (nondet_bool()) verif_exc = EXC_std_out_of_range; return nondet_int(); }
static inline double verif_stod(const Str *s, unsigned long *idx) { if (nondet_bool()) verif_exc = EXC_std_out_of_range; return nondet_double(); }
#else
int verif_stoi(const Str *s, unsigned long *idx, int base) __CPROVER_requires(1) __CPROVER_ensures(verif_exc == __CPROVER_old(verif_exc) || verif_exc == EXC_std_out_of_range) __CPROVER_assigns(verif_exc);
double verif_stod(const Str *s, unsigned long *idx) __CPROVER_requires(1) __CPROVER_ensures(verif_exc == __CPROVER_old(verif_exc) || verif_exc == EXC_std_out_of_range) __CPROVER_assigns(verif_exc);
#endif
/* fromString<T>: iostream extraction, not modelled (value unspecified, no exception) */
#ifdef VERIF_MODE_BOUNDED
static inline int TextTools__fromString_int(const Str *s) { return nondet_int(); }
static inline double TextTools__fromString_double(const Str *s) { return nondet_double(); }
#else
int TextTools__fromString_int(const Str *s) __CPROVER_requires(1) __CPROVER_ensures(1) __CPROVER_assigns();
double TextTools__fromString_double(const Str *s) __CPROVER_requires(1) __CPROVER_ensures(1) __CPROVER_assigns();
#endif
'''
STUB_CONTRACTS = {'TextTools__hasSubstring', 'Str__find_first_of_d', 'Str__find_first_not_of_d', 'TextTools__count', 'Str__op_assign_n', 'verif_stoi', 'verif_stod', 'Deq_Str__erase', 'TextTools__isEmpty', 'TextTools__fromString_int', 'TextTools__fromString_double', 'Str__substr', 'Str__op_pluseq_c', 'Str__op_pluseq',
                  'Str__find_first_of_n', 'Str__find_first_not_of_n', 'Str__find_n', 'Str__find_last_of_n', 'Str__make_copy', 'Str__ctor_copy',
                  'Str__concat', 'Str__eq', 'Str__eq_cstr', 'Str__make_cstr', 'Str__op_assign', 'Str__erase_range',
                  'Deq_Str__push_back'}

LIB = 'verif_exc_is_lib(verif_exc)'   # the exception in flight, if any, is a bpp::Exception
FUNCS = [
    dict(cname='TextTools__isDecimalNumber_c', qname='bpp::TextTools::isDecimalNumber', sig='bool (char)',
         requires=['1'], ensures=["__CPROVER_return_value == (c >= '0' && c <= '9')"], assigns=[]),
    dict(cname='TextTools__isNewLineCharacter', qname='bpp::TextTools::isNewLineCharacter',
         requires=['1'], ensures=["__CPROVER_return_value == (c == 10 || c == 13)"], assigns=[]),
    dict(cname='TextTools__isDecimalNumber', qname='bpp::TextTools::isDecimalNumber', sig='bool (const std::string &, char, char)',
         requires=['STR_OBJ(s)'], ensures=['verif_exc == 0'], assigns=[],
         loops={1: dict(assigns='i, sepCount, sciCount, digitCount', invariant=['i <= s->n', 'sepCount <= 1', 'sciCount <= 1'], decreases='s->n - i')}),
    dict(cname='TextTools__isDecimalInteger', qname='bpp::TextTools::isDecimalInteger',
         requires=['STR_OBJ(s)'], ensures=['verif_exc == 0'], assigns=[],
         loops={1: dict(assigns='i, sciCount, digitCount', invariant=['i <= s->n', 'sciCount <= 1'], decreases='s->n - i')}),
    dict(cname='TextTools__toInt', qname='bpp::TextTools::toInt',
         requires=['STR_OBJ(s)'], ensures=['verif_exc == 0 || verif_exc == EXC_Exception'], assigns=['verif_exc']),
    dict(cname='TextTools__toDouble', qname='bpp::TextTools::toDouble',
         requires=['STR_OBJ(s)'], ensures=['verif_exc == 0 || verif_exc == EXC_Exception'], assigns=['verif_exc']),
    dict(cname='TextTools__removeSubstrings3', qname='bpp::TextTools::removeSubstrings', sig='(const std::string &, char, char)',
         requires=['STR_OBJ(s)'], ensures=[LIB, 'verif_exc == 0 ==> __CPROVER_return_value.n <= s->n'], assigns=['verif_exc'],
         loops={1: dict(assigns='i, blockDepth, result.d, result.n, verif_exc', invariant=['i <= s->n', 'result.n <= i', 'blockDepth <= i', 'verif_exc == 0'], decreases='s->n - i')}),
    dict(cname='TextTools__removeSubstrings5', qname='bpp::TextTools::removeSubstrings', sig='(const std::string &, char, char, std::vector<std::string> &, std::vector<std::string> &)',
         requires=['STR_OBJ(s)', '__CPROVER_is_fresh(exceptionsBeginning, sizeof(Vec_Str)) && VEC_FRESH(exceptionsBeginning)', '__CPROVER_is_fresh(exceptionsEnding, sizeof(Vec_Str)) && VEC_FRESH(exceptionsEnding)'],
         # only library exceptions: no substr beyond the end of the text whatever the exception strings are; the block counter does not overflow
         ensures=[LIB], assigns=['verif_exc'],
         mirror={'s': [('unsigned long', 'n')], 'exceptionsBeginning': [('unsigned long', 'n')], 'exceptionsEnding': [('unsigned long', 'n')]},
         cex_requires=['s->n >= 3 && s->n <= 8 && exceptionsBeginning->n == 1 && exceptionsEnding->n == 0'],
         loops={1: dict(assigns='i, blockCount, begPos, t.d, t.n, verif_exc', invariant=['i <= s->n', 'begPos <= i', 'blockCount >= 0 && (unsigned long)blockCount <= i', 'verif_exc == 0'], decreases='s->n - i'),
                2: dict(assigns='j, except, verif_exc', invariant=['j <= exceptionsBeginning->n', 'verif_exc == 0'], decreases='exceptionsBeginning->n - j'),
                3: dict(assigns='j, verif_exc', invariant=['j <= exceptionsEnding->n', 'verif_exc == 0'], decreases='exceptionsEnding->n - j')}),
]
ONE_PAIR = [(r'Str__find_first_(?:not_)?of_d\(([^,]+,[^,]+),', 1, 'the delimiter-class ghost array needs one (string, set) pair per function')]
TOK_OK = '__CPROVER_is_fresh(self, sizeof(StringTokenizer))'
MEAS = '(index == STR_NPOS ? 0 : s->n + 1 - index)'
TOKASS = 'index, self->tokens_.d, self->tokens_.n, self->splits_.d, self->splits_.n, verif_exc'
FUNCS += [
    dict(cname='StringTokenizer__ctor_4', qname=ST + '::StringTokenizer', sig='(const std::string &, const std::string &, bool, bool)',
         requires=[TOK_OK, 'STR_OBJ(s)', 'STR_OBJ(delimiters)'],
         # terminates for every input and option combination; only library exceptions; no out-of-range substr
         ensures=[LIB, 'verif_exc == 0'], must_match=ONE_PAIR,
         assigns=['*self', 'verif_exc'],
         loops={1: dict(assigns=TOKASS, invariant=['index == STR_NPOS || index <= s->n', 'verif_exc == 0',
                                                   'self->tokens_.n <= (index == STR_NPOS ? s->n + 1 : index)', 'self->splits_.n <= self->tokens_.n'], decreases=MEAS),
                2: dict(assigns=TOKASS, invariant=['index == STR_NPOS || index <= s->n', 'verif_exc == 0',
                                                   'self->tokens_.n <= (index == STR_NPOS ? s->n + 1 : index)', 'self->splits_.n <= self->tokens_.n'], decreases=MEAS),
                3: dict(assigns='index, verif_exc', invariant=['index <= s->n', 'index >= newIndex + delimiters->n', 'verif_exc == 0'], decreases='s->n + 1 - index')}),
]

TOK_WF = '(VEC_FRESH(&self->tokens_) && VEC_FRESH(&self->splits_) && self->currentPosition_ <= self->tokens_.n)'
FUNCS[-1]['mirror'] = {'s': [('unsigned long', 'n')], 'delimiters': [('unsigned long', 'n')]}
FUNCS[-1]['cex_requires'] = ['s->n <= 4 && delimiters->n <= 2']
FUNCS += [
    dict(cname='StringTokenizer__hasMoreToken', qname=ST + '::hasMoreToken', requires=[TOK_OK, TOK_WF],
         ensures=['__CPROVER_return_value == (self->currentPosition_ < self->tokens_.n)'], assigns=[]),
    dict(cname='StringTokenizer__numberOfRemainingTokens', qname=ST + '::numberOfRemainingTokens', requires=[TOK_OK, TOK_WF],
         ensures=['__CPROVER_return_value == self->tokens_.n - self->currentPosition_'], assigns=[]),
    dict(cname='StringTokenizer__nextToken', qname=ST + '::nextToken', requires=[TOK_OK, TOK_WF],
         ensures=[LIB, '(verif_exc != 0) == (__CPROVER_old(self->currentPosition_) >= self->tokens_.n)',
                  'verif_exc == 0 ==> (self->currentPosition_ == __CPROVER_old(self->currentPosition_) + 1 && __CPROVER_return_value == &self->tokens_.d[__CPROVER_old(self->currentPosition_)])',
                  'self->currentPosition_ <= self->tokens_.n'],
         assigns=['self->currentPosition_', 'verif_exc']),
    dict(cname='StringTokenizer__unparseRemainingTokens', qname=ST + '::unparseRemainingTokens',
         # splits_ holds one separator between consecutive tokens (established by the constructor)
         requires=[TOK_OK, TOK_WF, '(self->tokens_.n == 0 ? self->splits_.n == 0 : self->splits_.n + 1 >= self->tokens_.n)',],
         ensures=[LIB, 'verif_exc == 0'], assigns=['verif_exc'],
         loops={1: dict(assigns='i, s.d, s.n', invariant=['i >= self->currentPosition_', 'i <= self->tokens_.n'], decreases='self->tokens_.n - i')},
         mirror={'self': [('unsigned long', 'currentPosition_')], '&self->tokens_': [('unsigned long', 'n')], '&self->splits_': [('unsigned long', 'n')]}),
]

# NestedStringTokenizer: two pairs of nested loops; the inner loop skips delimiters inside an open block
NTOK_OK = '__CPROVER_is_fresh(self, sizeof(NestedStringTokenizer))'
NASS = 'index, newIndex, endBlockFound, blocks, cache.d, cache.n, self->tokens_.d, self->tokens_.n, verif_exc'
N_OUT = dict(assigns=NASS.replace('newIndex, endBlockFound, ', ''),
             invariant=['index == STR_NPOS || index <= s->n', 'verif_exc == 0', 'blocks == 0', 'self->tokens_.n <= (index == STR_NPOS ? s->n + 1 : index)'], decreases=MEAS)
def n_in(found):
    return dict(assigns=NASS,
            invariant=['verif_exc == 0',
                       # newIndex is a position of a delimiter at or after index (the whole delimiter string when solid)
                       '!endBlockFound ==> (index <= s->n && index >= __CPROVER_loop_entry(index) && (newIndex == STR_NPOS || (newIndex >= index && newIndex < s->n && %s)))' % found,
                       # the block counter changes by at most the length of the scanned token + 1 at every step: no signed overflow
                       '!endBlockFound ==> (blocks >= -2 * (long)index && blocks <= 2 * (long)index)',
                       '!endBlockFound ==> self->tokens_.n <= __CPROVER_loop_entry(index)',
                       'endBlockFound ==> (blocks == 0 && (index == STR_NPOS || (index <= s->n && index > __CPROVER_loop_entry(index))) && self->tokens_.n <= (index == STR_NPOS ? s->n + 1 : index))'],
            decreases='(endBlockFound ? 0 : s->n + 2 - index)')
N_IN_NS = n_in('verif_isdelim[newIndex]')
N_IN_S = n_in('delimiters->n >= 1 && newIndex + delimiters->n <= s->n')
FUNCS += [
    dict(cname='StringTokenizer__ctor_0', qname=ST + '::StringTokenizer', sig='()', requires=[TOK_OK],
         ensures=['self->tokens_.n == 0 && self->splits_.n == 0 && self->currentPosition_ == 0', 'VEC_FRESH(&self->tokens_) && VEC_FRESH(&self->splits_)'], assigns=['*self']),
    dict(cname='NestedStringTokenizer__ctor_5', qname=NST + '::NestedStringTokenizer', sig='(const std::string &, const std::string &, const std::string &, const std::string &, bool)',
         requires=[NTOK_OK, 'STR_OBJ(s)', 'STR_OBJ(open)', 'STR_OBJ(end)', 'STR_OBJ(delimiters)'],
         # terminates for every input and option combination; raises nothing but the library's exception (no out-of-range substr); no signed overflow of the block counter
         ensures=[LIB],
         assigns=['*self', 'verif_exc'],
         loops={1: N_OUT, 2: N_IN_NS, 3: N_OUT, 4: N_IN_S}, inline=['StringTokenizer__ctor_0'],
         must_match=ONE_PAIR, variants=[dict(tag='solid0', fix={'solid': '0'}), dict(tag='solid1', fix={'solid': '1'})], mem_kb=30 * 1024 * 1024, timeout=1500,
         mirror={'s': [('unsigned long', 'n')], 'delimiters': [('unsigned long', 'n')], 'open': [('unsigned long', 'n')], 'end': [('unsigned long', 'n')]},
         cex_requires=['s->n <= 4 && delimiters->n <= 2 && open->n <= 1 && end->n <= 1']),
    dict(cname='NestedStringTokenizer__nextToken', qname=NST + '::nextToken', requires=[NTOK_OK, TOK_WF],
         ensures=[LIB, '(verif_exc != 0) == (__CPROVER_old(self->currentPosition_) >= self->tokens_.n)',
                  'verif_exc == 0 ==> (self->currentPosition_ == __CPROVER_old(self->currentPosition_) + 1 && __CPROVER_return_value == &self->tokens_.d[__CPROVER_old(self->currentPosition_)])',
                  'self->currentPosition_ <= self->tokens_.n'],
         assigns=['self->currentPosition_', 'verif_exc']),
]

FT = 'bpp::FileTools'
FUNCS += [
    dict(cname='StringTokenizer__removeEmptyTokens', qname=ST + '::removeEmptyTokens', requires=[TOK_OK, TOK_WF],
         ensures=[LIB, 'verif_exc == 0', 'self->tokens_.n <= __CPROVER_old(self->tokens_.n)', 'self->currentPosition_ <= self->tokens_.n'],
         assigns=['self->tokens_.n', '__CPROVER_object_whole(self->tokens_.d)', 'verif_exc'],
         loops={1: dict(assigns='i, self->tokens_.n, __CPROVER_object_whole(self->tokens_.d)', invariant=['i >= self->currentPosition_', 'i <= self->tokens_.n', 'self->tokens_.n <= __CPROVER_loop_entry(self->tokens_.n)'], decreases='i')}),
    dict(cname='FileTools__getExtension', qname=FT + '::getExtension', requires=['STR_OBJ(path)'],
         ensures=[LIB, 'verif_exc == 0'], assigns=['verif_exc'], mirror={'path': [('unsigned long', 'n')]}),
    dict(cname='FileTools__getParent', qname=FT + '::getParent', requires=['STR_OBJ(path)'],
         ensures=[LIB, 'verif_exc == 0'], assigns=['verif_exc'], mirror={'path': [('unsigned long', 'n')]}, cex_requires=['path->n <= 4']),
    # static_cast<ptrdiff_t>(npos) == -1 is implementation-defined (not undefined) and relied upon by the begin > end test:
    # the unsigned->signed conversion check would be a false alarm here
    dict(cname='FileTools__getFileName', qname=FT + '::getFileName', requires=['STR_OBJ(path)'], drop_flags=['--conversion-check'],
         ensures=[LIB, 'verif_exc == 0'], assigns=['verif_exc'], mirror={'path': [('unsigned long', 'n')]}, cex_requires=['path->n <= 4']),
]

LEMMAS = []
REPLAY = {'re:^p_NestedStringTokenizer__ctor_5': dict(adapter='c16_hang.cpp'), 'p_FileTools__getParent': dict(adapter='c16_text.cpp'), 'p_StringTokenizer__ctor_4': dict(adapter='c16_hang.cpp'), 'p_StringTokenizer__unparseRemainingTokens': dict(adapter='c16_text.cpp'), 'p_TextTools__removeSubstrings5': dict(adapter='c16_text.cpp')}
TRUSTED = ['std::string modelled as bytes + length; searching/slicing members by contract (stubs/str.h); std::isdigit/isspace in the C locale']
ASSUMPTIONS = ['strings shorter than 65536 bytes in the proofs (cap of the memory model; induction over the length, no unwinding)']
NOT_DECIDED = ['entry points built on iostreams, std::map or STL algorithms with lambdas (listed in DESIGN.md C16)']
