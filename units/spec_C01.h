/* C01 specification of interval membership, written from the property statement.
   Shared by the CBMC contracts (C, struct fields) and by the native replay adapters (C++, public getters). */
#ifndef SPEC_C01_H
#define SPEC_C01_H
#ifdef __cplusplus
#define LB(I) ((I)->getLowerBound())
#define UB(I) ((I)->getUpperBound())
#define IL(I) (!(I)->strictLowerBound())
#define IU(I) (!(I)->strictUpperBound())
#define PREC(I) ((I)->getPrecision())
#define SPEC_ISNAN(x) ((x) != (x))
#define SPEC_PINF (1.0 / 0.0)
#define SPEC_MINF (-1.0 / 0.0)
#else
#define LB(I) ((I)->lowerBound_)
#define UB(I) ((I)->upperBound_)
#define IL(I) ((I)->inclLowerBound_)
#define IU(I) ((I)->inclUpperBound_)
#define PREC(I) ((I)->precision_)
#define SPEC_ISNAN(x) VERIF_ISNAN(x)
#define SPEC_PINF VERIF_PINF
#define SPEC_MINF VERIF_MINF
#endif
#define SPEC_ISFINITE(x) ((x) == (x) && (x) != SPEC_PINF && (x) != SPEC_MINF)
#define MEM_LOW(I, v) ((v) > LB(I) || (IL(I) && (v) == LB(I)))
#define MEM_UP(I, v)  ((v) < UB(I) || (IU(I) && (v) == UB(I)))
/* the interval accepts exactly the reals between its bounds honouring open/closed ends */
#define MEM(I, v) (MEM_LOW(I, v) && MEM_UP(I, v))
/* membership in explicit (lb, ub, il, iu) form, used for pre-state copies */
#define MEM4(lb, ub, il, iu, v) (((v) > (lb) || ((il) && (v) == (lb))) && ((v) < (ub) || ((iu) && (v) == (ub))))
/* emptiness: no real is accepted (equal infinite bounds are left unspecified) */
#define SPEC_EMPTY_DEFINED(I) (LB(I) != UB(I) || SPEC_ISFINITE(LB(I)))
#define SPEC_EMPTY(I) (LB(I) > UB(I) || (LB(I) == UB(I) && !(IL(I) && IU(I))))
#define SPEC_MAX(a, b) ((a) > (b) ? (a) : (b))
#endif
