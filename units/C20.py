"""C20 - range collections behave as sets of points (DESIGN.md section 4, C20)."""
PROPERTY = 'C20'
LEVEL = 'proof'

TYPES_T = [('int', 'int', 'int'), ('unsigned int', 'uint', 'unsigned int'), ('double', 'double', 'double')]  # (C++ T, mangled, C type)

_inst = ''.join('template class bpp::Range<%s>; template class bpp::RangeSet<%s>; template class bpp::MultiRange<%s>; template class bpp::rangeComp_<%s>;\n' % (t, t, t, t) for t, _, _ in TYPES_T)
TUS = {
    'range': dict(src='#include <Bpp/Numeric/Range.h>\n' + _inst, filter='bpp::Range'),
    'multi': dict(src='#include <Bpp/Numeric/Range.h>\n' + _inst, filter='bpp::MultiRange'),
    'comp': dict(src='#include <Bpp/Numeric/Range.h>\n' + _inst, filter='bpp::rangeComp_'),
}

free = {}
for t, m, c in TYPES_T:
    free[('min', 'const %s &(const %s &, const %s &)' % (t, t, t))] = 'verif_min_' + m
    free[('max', 'const %s &(const %s &, const %s &)' % (t, t, t))] = 'verif_max_' + m

CFG = dict(types={}, plain=set(), rename={}, free=free, throws=set())
STRUCTS = ['bpp::Range<%s>' % t for t, _, _ in TYPES_T]

PRE_STRUCTS = r'''
#include "vec.h"
'''
PRELUDE = r'''
#define MINMAX(T, M) \
  static inline const T *verif_min_##M(const T *a, const T *b) { return (*b < *a) ? b : a; } \
  static inline const T *verif_max_##M(const T *a, const T *b) { return (*a < *b) ? b : a; }
MINMAX(int, int) MINMAX(unsigned int, uint) MINMAX(double, double)
/* ---- specification: half-open intervals as point sets ---- */
#define IN(r, x) ((r)->begin_ <= (x) && (x) < (r)->end_)
#define IN2(b, e, x) ((b) <= (x) && (x) < (e))
#define R_WF(r) ((r)->begin_ <= (r)->end_)          /* also excludes NaN end points */
#define R_NONEMPTY(r) ((r)->begin_ < (r)->end_)
#define R_FRESH(r) __CPROVER_is_fresh(r, sizeof(*(r)))
#define SMAX(a, b) ((a) > (b) ? (a) : (b))
#define SMIN(a, b) ((a) < (b) ? (a) : (b))
int verif_gx_int; unsigned int verif_gx_uint; double verif_gx_double;  /* ghost point, universally quantified */
'''

FUNCS = []
def F(**k):
    FUNCS.append(k)

for t, m, c in TYPES_T:
    R = 'bpp::Range<%s>' % t
    N = 'Range_' + m
    gx = 'verif_gx_' + m
    nd = {'int': 'nondet_int()', 'uint': 'nondet_uint()', 'double': 'nondet_double()'}[m]
    pre_gx = ['%s = %s;' % (gx, nd)]
    notnan = (lambda v: '!VERIF_ISNAN(*%s)' % v) if m == 'double' else (lambda v: '1')
    F(cname=N + '__ctor_2', qname=R + '::Range', sig='void (const %s &, const %s &)' % (t, t),
      requires=['R_FRESH(self)', '__CPROVER_is_fresh(a, sizeof(*a))', '__CPROVER_is_fresh(b, sizeof(*b))', notnan('a'), notnan('b')],
      # the constructor orders its arguments (reversed-argument ranges)
      ensures=['self->begin_ == SMIN(*a, *b) && self->end_ == SMAX(*a, *b)', 'R_WF(self)'], assigns=['*self'])
    F(cname=N + '__ctor_copy', qname=R + '::Range', sig='void (const bpp::Range<%s> &)' % t,
      requires=['R_FRESH(self)', 'R_FRESH(range)', 'R_WF(range)'],
      ensures=['self->begin_ == range->begin_ && self->end_ == range->end_'], assigns=['*self'])
    F(cname=N + '__op_assign', qname=R + '::operator=',
      requires=['R_FRESH(self)', 'R_FRESH(range)', 'R_WF(range)'],
      ensures=['self->begin_ == range->begin_ && self->end_ == range->end_', '__CPROVER_return_value == self'], assigns=['*self'])
    F(cname=N + '__op_eq', qname=R + '::operator==', requires=['R_FRESH(self)', 'R_FRESH(r)', 'R_WF(self)', 'R_WF(r)'],
      ensures=['__CPROVER_return_value == (self->begin_ == r->begin_ && self->end_ == r->end_)'], assigns=[])
    F(cname=N + '__op_ne', qname=R + '::operator!=', requires=['R_FRESH(self)', 'R_FRESH(r)', 'R_WF(self)', 'R_WF(r)'],
      ensures=['__CPROVER_return_value == !(self->begin_ == r->begin_ && self->end_ == r->end_)'], assigns=[])
    F(cname=N + '__op_lt', qname=R + '::operator<', requires=['R_FRESH(self)', 'R_FRESH(r)', 'R_WF(self)', 'R_WF(r)'],
      ensures=['__CPROVER_return_value == (self->begin_ < r->begin_ || self->end_ < r->end_)',
               # on disjoint non-empty ranges this is "lies before"
               '(R_NONEMPTY(self) && R_NONEMPTY(r) && self->end_ <= r->begin_) ==> __CPROVER_return_value',
               '(R_NONEMPTY(self) && R_NONEMPTY(r) && r->end_ <= self->begin_) ==> !__CPROVER_return_value'], assigns=[])
    F(cname=N + '__begin', qname=R + '::begin', requires=['R_FRESH(self)', 'R_WF(self)'], ensures=['__CPROVER_return_value == self->begin_'], assigns=[])
    F(cname=N + '__end', qname=R + '::end', requires=['R_FRESH(self)', 'R_WF(self)'], ensures=['__CPROVER_return_value == self->end_'], assigns=[])
    if m == 'int':
        noov_len = ['(long)self->end_ - (long)self->begin_ <= 2147483647L']
        noov_add = ['(long)self->begin_ + (long)*val >= -2147483648L && (long)self->end_ + (long)*val <= 2147483647L']
        noov_sub = ['(long)self->begin_ - (long)*val >= -2147483648L && (long)self->end_ - (long)*val <= 2147483647L']
    elif m == 'uint':
        noov_len = []
        noov_add = ['(unsigned long)self->end_ + (unsigned long)*val <= 4294967295UL']
        noov_sub = ['*val <= self->begin_']
    else:
        noov_len = ['VERIF_ISFINITE(self->begin_) && VERIF_ISFINITE(self->end_)']
        noov_add = ['VERIF_ISFINITE(self->begin_) && VERIF_ISFINITE(self->end_) && VERIF_ISFINITE(*val)']
        noov_sub = noov_add
    F(cname=N + '__length', qname=R + '::length', requires=['R_FRESH(self)', 'R_WF(self)'] + noov_len,
      ensures=['__CPROVER_return_value == self->end_ - self->begin_', '__CPROVER_return_value >= 0'], assigns=[])
    F(cname=N + '__isEmpty', qname=R + '::isEmpty', requires=['R_FRESH(self)', 'R_WF(self)'],
      # emptiness: no point is contained
      ensures=['__CPROVER_return_value == !R_NONEMPTY(self)', '__CPROVER_return_value ==> !IN(self, %s)' % gx,
               '!__CPROVER_return_value ==> IN(self, self->begin_)'], harness_pre=pre_gx, assigns=[])
    # order preservation under a floating-point shift (monotonicity of IEEE addition) is beyond the SAT back ends (>120 s): not claimed
    shift_post = ['__CPROVER_return_value == self'] + (['R_WF(self)'] if m != 'double' else [])
    if m != 'double':
        shift_post.append('(long)self->end_ - (long)self->begin_ == (long)__CPROVER_old(self->end_) - (long)__CPROVER_old(self->begin_)')   # shifting preserves length
    F(cname=N + '__op_pluseq', qname=R + '::operator+=', requires=['R_FRESH(self)', 'R_WF(self)', '__CPROVER_is_fresh(val, sizeof(*val))'] + noov_add,
      ensures=shift_post + ['self->begin_ == __CPROVER_old(self->begin_) + *val && self->end_ == __CPROVER_old(self->end_) + *val'], assigns=['*self'], split=(m == 'double'))
    F(cname=N + '__op_minuseq', qname=R + '::operator-=', requires=['R_FRESH(self)', 'R_WF(self)', '__CPROVER_is_fresh(val, sizeof(*val))'] + noov_sub,
      ensures=shift_post + ['self->begin_ == __CPROVER_old(self->begin_) - *val && self->end_ == __CPROVER_old(self->end_) - *val'], assigns=['*self'], split=(m == 'double'))
    F(cname=N + '__overlap', qname=R + '::overlap', requires=['R_FRESH(self)', 'R_FRESH(r)', 'R_WF(self)', 'R_WF(r)'],
      # for non-empty operands: overlap <=> some point lies in both
      ensures=['(R_NONEMPTY(self) && R_NONEMPTY(r)) ==> ((IN(self, %s) && IN(r, %s)) ==> __CPROVER_return_value)' % (gx, gx),
               '(R_NONEMPTY(self) && R_NONEMPTY(r) && __CPROVER_return_value) ==> (IN(self, SMAX(self->begin_, r->begin_)) && IN(r, SMAX(self->begin_, r->begin_)))',
               '(R_NONEMPTY(self) && R_NONEMPTY(r)) ==> (__CPROVER_return_value == (SMAX(self->begin_, r->begin_) < SMIN(self->end_, r->end_)))'],
      harness_pre=pre_gx, assigns=[])
    F(cname=N + '__isContiguous', qname=R + '::isContiguous', requires=['R_FRESH(self)', 'R_FRESH(r)', 'R_WF(self)', 'R_WF(r)'],
      ensures=['__CPROVER_return_value == (r->begin_ == self->end_ || r->end_ == self->begin_)'], assigns=[])
    F(cname=N + '__contains', qname=R + '::contains', requires=['R_FRESH(self)', 'R_FRESH(r)', 'R_WF(self)', 'R_WF(r)'],
      # for a non-empty argument: contains <=> every point of r is a point of this
      ensures=['(R_NONEMPTY(r) && __CPROVER_return_value) ==> (IN(r, %s) ==> IN(self, %s))' % (gx, gx),
               '(R_NONEMPTY(r) && !__CPROVER_return_value && r->begin_ < self->begin_) ==> (IN(r, r->begin_) && !IN(self, r->begin_))',
               '(R_NONEMPTY(r) && !__CPROVER_return_value && !(r->begin_ < self->begin_)) ==> (IN(r, SMAX(r->begin_, self->end_)) && !IN(self, SMAX(r->begin_, self->end_)))',
               'R_NONEMPTY(r) ==> (__CPROVER_return_value == (r->begin_ >= self->begin_ && r->end_ <= self->end_))'],
      harness_pre=pre_gx, assigns=[])
    F(cname=N + '__sliceWith', qname=R + '::sliceWith', requires=['R_FRESH(self)', 'R_FRESH(r)', 'R_WF(self)', 'R_WF(r)'],
      # slicing is intersection, for every argument including empty and disjoint ones
      ensures=['IN(self, %s) == (IN2(__CPROVER_old(self->begin_), __CPROVER_old(self->end_), %s) && IN(r, %s))' % (gx, gx, gx), 'R_WF(self)'],
      harness_pre=pre_gx, assigns=['*self'], mirror={'self': R, 'r': R},
      inline=[N + '__overlap'])   # overlap is left unspecified for empty operands, so its body (not its contract) is used here
    F(cname=N + '__expandWith', qname=R + '::expandWith', requires=['R_FRESH(self)', 'R_FRESH(r)', 'R_WF(self)', 'R_WF(r)'],
      # overlapping or touching ranges: the hull; otherwise unchanged
      ensures=['(R_NONEMPTY(r) && R_NONEMPTY(self) && r->begin_ <= __CPROVER_old(self->end_) && r->end_ >= __CPROVER_old(self->begin_)) ==> (self->begin_ == SMIN(__CPROVER_old(self->begin_), r->begin_) && self->end_ == SMAX(__CPROVER_old(self->end_), r->end_))',
               '(R_NONEMPTY(r) && R_NONEMPTY(self) && !(r->begin_ <= __CPROVER_old(self->end_) && r->end_ >= __CPROVER_old(self->begin_))) ==> (self->begin_ == __CPROVER_old(self->begin_) && self->end_ == __CPROVER_old(self->end_))',
               # in every case nothing is lost
               'IN2(__CPROVER_old(self->begin_), __CPROVER_old(self->end_), %s) ==> IN(self, %s)' % (gx, gx), 'R_WF(self)'],
      harness_pre=pre_gx, assigns=['*self'])

LEMMAS = []
REPLAY = {'re:^b_MultiRange_(addRange|restrictTo|filterWithin|copyctor|assign)_': dict(adapter='c20_multirange.cpp')}
TRUSTED = ['std::min / std::max modelled by their definition']
ASSUMPTIONS = ['range end points are not NaN; integer shifts do not overflow (precondition of operator+= / operator-=)']
NOT_DECIDED = ['shifting preserves length for floating-point coordinates (holds only up to rounding)', 'begin <= end after a floating-point shift (monotonicity of IEEE addition: solver timeout)']

# ----------------------------------------------------------------------------------------------------------------
# MultiRange<T> / RangeSet<T>: inductive step from an arbitrary well-formed state with K stored ranges (bounded in K)
# ----------------------------------------------------------------------------------------------------------------
CFG['ghost_fields'] = {}
CFG['range_for'] = {}
coll_funcs = {}
for t, m, c in TYPES_T:
    R = 'bpp::Range<%s>' % t
    MR = 'bpp::MultiRange<%s>' % t
    RS = 'bpp::RangeSet<%s>' % t
    RC = 'bpp::rangeComp_<%s>' % t
    STRUCTS += [RC, MR, RS]
    CFG['ghost_fields'][RC] = 'char verif_dummy;'
    CFG['plain'].add(RC)   # empty function object: implicit (trivial) copy
    CFG['ghost_fields']['bpp::RangeCollection<%s>' % t] = 'char verif_dummy_rc;'
    CFG['range_for']['std::vector<bpp::Range<%s> *>' % t] = ('Vec_p_Range_%s__size' % m, 'Vec_p_Range_%s__op_index' % m)
    names = []
    def B(cn, qn, **k):
        FUNCS.append(dict(cname=cn, qname=qn, **k)); names.append(cn)
    B('Range_%s__clone' % m, R + '::clone')
    B('Range_%s__op_plus' % m, R + '::operator+')
    B('Range_%s__op_minus' % m, R + '::operator-')
    B('rangeComp__%s__op_call' % m, RC + '::operator()')
    for cls, q in (('MultiRange_' + m, MR), ('RangeSet_' + m, RS)):
        B(cls + '__ctor_0', q + '::' + q.split('::')[1].split('<')[0], sig='void ()')
        B(cls + '__ctor_copy', q + '::' + q.split('::')[1].split('<')[0], sig='void (const')
        B(cls + '__op_assign', q + '::operator=')
        for meth in ('addRange', 'restrictTo', 'filterWithin', 'totalLength', 'clear', 'clear_', 'isEmpty', 'size', 'getRange'):
            B(cls + '__' + meth, q + '::' + meth)
    B('MultiRange_%s__clean_' % m, MR + '::clean_')
    B('MultiRange_%s__getBounds' % m, MR + '::getBounds')
    coll_funcs[m] = names
    free[('sort',)] = free.get(('sort',), []) + [('rangeComp_<%s>' % t, 'verif_sort_p_Range_' + m)]

PRE_STRUCTS += ''.join('typedef struct Range_%s Range_%s; VEC_DECL(Range_%s*, Vec_p_Range_%s)\n' % (m, m, m, m) for _, m, _ in TYPES_T)
PRE_STRUCTS += 'VEC_DECL(int, Vec_int) VEC_DECL(unsigned int, Vec_uint) VEC_DECL(double, Vec_double) VEC_DECL(unsigned long, Vec_ulong)\n'

SORT_STUB = r'''
#ifdef VERIF_MODE_BOUNDED
#ifndef VERIF_SORT_MAX
#define VERIF_SORT_MAX 4
#endif
_Bool rangeComp__%(m)s__op_call(rangeComp__%(m)s *self, const Range_%(m)s *a, const Range_%(m)s *b);
/* std::sort(first, last, comp): the standard requires comp to be a strict weak ordering on the elements present;
   the precondition is checked with the real comparator on all pairs and triples of (copies of) the elements,
   then an insertion sort is executed.  VERIF_SORT_MAX is the bound of the bounded model on last - first. */
static inline void verif_sort_p_Range_%(m)s(Range_%(m)s **first, Range_%(m)s **last, rangeComp__%(m)s comp) {
  long n = last - first;
  __CPROVER_assert(n <= VERIF_SORT_MAX, "verif_model_bound: more elements than the bounded sort model holds");
  __CPROVER_assume(n <= VERIF_SORT_MAX);
  Range_%(m)s cp[VERIF_SORT_MAX];
  _Bool lt[VERIF_SORT_MAX][VERIF_SORT_MAX];
  for (long i = 0; i < VERIF_SORT_MAX; ++i) if (i < n) cp[i] = *first[i];
  for (long i = 0; i < VERIF_SORT_MAX; ++i) for (long j = 0; j < VERIF_SORT_MAX; ++j) if (i < n && j < n) lt[i][j] = rangeComp__%(m)s__op_call(&comp, &cp[i], &cp[j]);
  for (long i = 0; i < VERIF_SORT_MAX; ++i) if (i < n) {
    __CPROVER_assert(!lt[i][i], "std::sort precondition: comparator irreflexive on the stored ranges");
    for (long j = 0; j < VERIF_SORT_MAX; ++j) if (j < n) {
      __CPROVER_assert(!(lt[i][j] && lt[j][i]), "std::sort precondition: comparator asymmetric on the stored ranges");
      for (long k = 0; k < VERIF_SORT_MAX; ++k) if (k < n) {
        __CPROVER_assert(!(lt[i][j] && lt[j][k]) || lt[i][k], "std::sort precondition: comparator transitive on the stored ranges");
        __CPROVER_assert(!(!lt[i][j] && !lt[j][i] && !lt[j][k] && !lt[k][j]) || (!lt[i][k] && !lt[k][i]), "std::sort precondition: incomparability transitive on the stored ranges");
      }
    }
  }
  for (long i = 1; i < VERIF_SORT_MAX; ++i) if (i < n) {
    Range_%(m)s *x = first[i]; long j = i;
    for (long s = 0; s < VERIF_SORT_MAX; ++s) { if (!(j > 0 && rangeComp__%(m)s__op_call(&comp, x, first[j - 1]))) break; first[j] = first[j - 1]; --j; }
    first[j] = x;
  }
}
#endif
'''
PRELUDE += ''.join(SORT_STUB % dict(m=m) for _, m, _ in TYPES_T)

HARNESS_COMMON = r'''
#define K %(K)d
typedef %(c)s T;
static T nd(void) { T v = %(nd)s; %(dom)s return v; }
/* stored ranges of the pre-state: bounds are named harness inputs */
T in_b[4], in_e[4]; T in_rb, in_re, in_x;
static _Bool mem_pre(T x) { _Bool r = 0; for (int i = 0; i < K; ++i) r = r || IN2(in_b[i], in_e[i], x); return r; }
static _Bool mem_now(const Vec_p_Range_%(m)s *v, T x) { _Bool r = 0; for (unsigned long i = 0; i < v->n; ++i) r = r || IN(v->d[i], x); return r; }
/* WF: non-empty, ascending, pairwise disjoint */
static _Bool wf_now(const Vec_p_Range_%(m)s *v) {
  for (unsigned long i = 0; i < v->n; ++i) {
    if (!(v->d[i]->begin_ < v->d[i]->end_)) return 0;
    if (i + 1 < v->n && !(v->d[i]->end_ <= v->d[i + 1]->begin_)) return 0;
  }
  return 1;
}
static void fill(Vec_p_Range_%(m)s *v, _Bool ordered) {
  for (int i = 0; i < K; ++i) {
    in_b[i] = nd(); in_e[i] = nd();
    __CPROVER_assume(in_b[i] < in_e[i]);
    if (ordered && i > 0) __CPROVER_assume(in_e[i - 1] <= in_b[i]);
    Range_%(m)s *p = (Range_%(m)s*)verif_new(sizeof(Range_%(m)s)); p->begin_ = in_b[i]; p->end_ = in_e[i];
    Vec_p_Range_%(m)s__push_back(v, &p);
  }
}
'''

def _harness(m, c, K, body, tier):
    nd = {'int': 'nondet_int()', 'uint': 'nondet_uint()', 'double': 'nondet_double()'}[m]
    # end points: arbitrary except for the range in which sums cannot overflow (ints) / NaN (doubles)
    dom = {'int': '__CPROVER_assume(v >= -1000000 && v <= 1000000);', 'uint': '__CPROVER_assume(v <= 1000000u);', 'double': '__CPROVER_assume(v == v);'}[m]
    return (HARNESS_COMMON + body) % dict(K=K, c=c, m=m, nd=nd, dom=dom)

H_ADD = r'''
void h(void) {
  MultiRange_%(m)s mr; MultiRange_%(m)s__ctor_0(&mr); fill(&mr.ranges_, 1);
  in_rb = nd(); in_re = nd(); __CPROVER_assume(in_rb <= in_re); in_x = nd();
  Range_%(m)s r; r.begin_ = in_rb; r.end_ = in_re;
  _Bool pre = mem_pre(in_x);
  verif_exc = 0;
  MultiRange_%(m)s__addRange(&mr, &r);
  __CPROVER_assert(verif_exc == 0, "addRange does not raise");
  __CPROVER_assert(wf_now(&mr.ranges_), "after addRange the stored ranges are non-empty, ascending and pairwise disjoint");
  __CPROVER_assert(mem_now(&mr.ranges_, in_x) == (pre || IN(&r, in_x)), "after addRange the union is the old union plus the added range");
  __CPROVER_assert(r.begin_ == in_rb && r.end_ == in_re, "addRange leaves its argument unchanged");
  %(sumcheck)s
  __CPROVER_assert(0, "verif_canary reachable after call");
}
'''
SUM_INT = r'''{ unsigned long tot = 0; for (unsigned long i = 0; i < mr.ranges_.n; ++i) tot += (unsigned long)(mr.ranges_.d[i]->end_ - mr.ranges_.d[i]->begin_);
    __CPROVER_assert(MultiRange_%(m)s__totalLength(&mr) == tot, "totalLength is the measure of the union (sum of the disjoint stored lengths)"); }'''
H_RESTRICT = r'''
void h(void) {
  MultiRange_%(m)s mr; MultiRange_%(m)s__ctor_0(&mr); fill(&mr.ranges_, 1);
  in_rb = nd(); in_re = nd(); __CPROVER_assume(in_rb <= in_re); in_x = nd();
  Range_%(m)s r; r.begin_ = in_rb; r.end_ = in_re;
  _Bool pre = mem_pre(in_x);
  verif_exc = 0;
  MultiRange_%(m)s__restrictTo(&mr, &r);
  __CPROVER_assert(verif_exc == 0, "restrictTo does not raise");
  __CPROVER_assert(wf_now(&mr.ranges_), "after restrictTo the stored ranges are non-empty, ascending and pairwise disjoint");
  __CPROVER_assert(mem_now(&mr.ranges_, in_x) == (pre && IN(&r, in_x)), "after restrictTo the union is the old union intersected with the restriction");
  __CPROVER_assert(0, "verif_canary reachable after call");
}
'''
H_FILTER = r'''
void h(void) {
  %(CLS)s_%(m)s mr; %(CLS)s_%(m)s__ctor_0(&mr); fill(&mr.ranges_, %(ordered)d);
  in_rb = nd(); in_re = nd(); __CPROVER_assume(in_rb <= in_re);
  Range_%(m)s r; r.begin_ = in_rb; r.end_ = in_re;
  verif_exc = 0;
  %(CLS)s_%(m)s__filterWithin(&mr, &r);
  __CPROVER_assert(verif_exc == 0, "filterWithin does not raise");
  /* exactly the ranges contained in r are kept, in order, unchanged */
  unsigned long j = 0;
  for (int i = 0; i < K; ++i) {
    if (in_rb <= in_b[i] && in_e[i] <= in_re) {
      __CPROVER_assert(j < mr.ranges_.n && mr.ranges_.d[j]->begin_ == in_b[i] && mr.ranges_.d[j]->end_ == in_e[i], "filterWithin keeps every stored range contained in the filter, in order");
      ++j;
    }
  }
  __CPROVER_assert(j == mr.ranges_.n, "filterWithin drops every stored range not contained in the filter");
  __CPROVER_assert(0, "verif_canary reachable after call");
}
'''
H_COPY = r'''
void h(void) {
  %(CLS)s_%(m)s a; %(CLS)s_%(m)s__ctor_0(&a); fill(&a.ranges_, %(ordered)d);
  %(CLS)s_%(m)s b;
  verif_exc = 0;
  %(copy)s
  __CPROVER_assert(verif_exc == 0, "copy does not raise");
  __CPROVER_assert(b.ranges_.n == K && a.ranges_.n == K, "copy has the same number of ranges");
  for (int i = 0; i < K; ++i) {
    __CPROVER_assert(b.ranges_.d[i]->begin_ == in_b[i] && b.ranges_.d[i]->end_ == in_e[i], "copy has equal contents");
    for (int j = 0; j < K; ++j) __CPROVER_assert(b.ranges_.d[i] != a.ranges_.d[j], "copy is deep: no range object is shared with the source");
  }
  /* later mutation of either side leaves the other unchanged */
  in_rb = nd(); in_re = nd(); __CPROVER_assume(in_rb <= in_re);
  Range_%(m)s r; r.begin_ = in_rb; r.end_ = in_re;
  if (nondet_bool()) { %(CLS)s_%(m)s__restrictTo(&b, &r); %(CLS)s_%(m)s__clear(&b); __CPROVER_assert(b.ranges_.n == 0, "clear empties the collection");
    __CPROVER_assert(a.ranges_.n == K, "source keeps its ranges");
    for (int i = 0; i < K; ++i) __CPROVER_assert(a.ranges_.d[i]->begin_ == in_b[i] && a.ranges_.d[i]->end_ == in_e[i], "mutating the copy leaves the source unchanged");
  } else { %(CLS)s_%(m)s__restrictTo(&a, &r); %(CLS)s_%(m)s__clear(&a);
    __CPROVER_assert(b.ranges_.n == K, "copy keeps its ranges");
    for (int i = 0; i < K; ++i) __CPROVER_assert(b.ranges_.d[i]->begin_ == in_b[i] && b.ranges_.d[i]->end_ == in_e[i], "mutating the source leaves the copy unchanged");
  }
  __CPROVER_assert(0, "verif_canary reachable after call");
}
'''
H_BOUNDS = r'''
void h(void) {
  MultiRange_%(m)s mr; MultiRange_%(m)s__ctor_0(&mr); fill(&mr.ranges_, 1);
  Vec_%(m)s bd = MultiRange_%(m)s__getBounds(&mr);
  __CPROVER_assert(bd.n == 2 * K, "getBounds returns two bounds per stored range");
  for (int i = 0; i < K; ++i) __CPROVER_assert(bd.d[2 * i] == in_b[i] && bd.d[2 * i + 1] == in_e[i], "getBounds lists begin and end of every stored range in order");
  __CPROVER_assert(MultiRange_%(m)s__size(&mr) == K && MultiRange_%(m)s__isEmpty(&mr) == (K == 0), "size / isEmpty");
  __CPROVER_assert(0, "verif_canary reachable after call");
}
'''
H_SET_ADD = r'''
void h(void) {
  RangeSet_%(m)s rs; RangeSet_%(m)s__ctor_0(&rs); fill(&rs.ranges_, 0);
  in_rb = nd(); in_re = nd(); __CPROVER_assume(in_rb <= in_re);
  Range_%(m)s r; r.begin_ = in_rb; r.end_ = in_re;
  verif_exc = 0;
  RangeSet_%(m)s__addRange(&rs, &r);
  /* every non-empty added range is kept (as a copy, after the existing ones); empty ones are dropped */
  __CPROVER_assert(rs.ranges_.n == K + (in_rb < in_re ? 1 : 0), "RangeSet::addRange keeps a non-empty range and drops an empty one");
  for (int i = 0; i < K; ++i) __CPROVER_assert(rs.ranges_.d[i]->begin_ == in_b[i] && rs.ranges_.d[i]->end_ == in_e[i], "RangeSet::addRange leaves the stored ranges unchanged");
  if (in_rb < in_re) __CPROVER_assert(rs.ranges_.d[K]->begin_ == in_rb && rs.ranges_.d[K]->end_ == in_re && rs.ranges_.d[K] != &r, "RangeSet::addRange stores a copy of the added range");
  %(sumcheck)s
  __CPROVER_assert(0, "verif_canary reachable after call");
}
'''
SUM_SET = r'''{ unsigned long tot = 0; for (unsigned long i = 0; i < rs.ranges_.n; ++i) tot += (unsigned long)(rs.ranges_.d[i]->end_ - rs.ranges_.d[i]->begin_);
    __CPROVER_assert(RangeSet_%(m)s__totalLength(&rs) == tot, "RangeSet::totalLength is the sum of the stored lengths"); }'''
H_SET_RESTRICT = r'''
void h(void) {
  RangeSet_%(m)s rs; RangeSet_%(m)s__ctor_0(&rs); fill(&rs.ranges_, 0);
  in_rb = nd(); in_re = nd(); __CPROVER_assume(in_rb <= in_re);
  Range_%(m)s r; r.begin_ = in_rb; r.end_ = in_re;
  verif_exc = 0;
  RangeSet_%(m)s__restrictTo(&rs, &r);
  /* each stored range is intersected individually; the non-empty intersections are kept in order */
  unsigned long j = 0;
  for (int i = 0; i < K; ++i) {
    T nb = SMAX(in_b[i], in_rb), ne = SMIN(in_e[i], in_re);
    if (nb < ne) {
      __CPROVER_assert(j < rs.ranges_.n && rs.ranges_.d[j]->begin_ == nb && rs.ranges_.d[j]->end_ == ne, "RangeSet::restrictTo keeps the non-empty intersection of every stored range, in order");
      ++j;
    }
  }
  __CPROVER_assert(j == rs.ranges_.n, "RangeSet::restrictTo drops the ranges whose intersection is empty");
  __CPROVER_assert(0, "verif_canary reachable after call");
}
'''

def generate_jobs(unit, tier):
    jobs = []
    kmax = 3 if tier == 'thorough' else 2
    for t, m, c in TYPES_T:
        bodies = ['Range_%s__%s' % (m, f) for f in ('ctor_2', 'ctor_copy', 'op_assign', 'overlap', 'contains', 'expandWith', 'sliceWith', 'isEmpty', 'length', 'begin', 'end', 'op_lt', 'op_pluseq', 'op_minuseq')] + coll_funcs[m]
        def J(name, K, text, unwind=None, note=''):
            jobs.append(dict(id='b_%s_%s_K%d' % (name, m, K), kind='bounded', mode='bounded', entry='h', bodies=bodies, harness=text,
                             unwind=unwind or (K + 3), cbmc_flags=[], timeout=600, defs='#define VERIF_SORT_MAX %d\n#define VEC_BCAP %d' % (K + 1, 2 * K + 2),
                             bound='stored ranges before the operation = %d; end points symbolic (%s); unwinding %d' % (K, 'any non-NaN double' if m == 'double' else '|v| <= 10^6 (so that length sums cannot overflow)', unwind or (K + 4)),
                             doc='%s on %s with %d stored ranges: %s' % (name, t, K, note)))
        # addRange merges several stored ranges into one: the interesting histories need three stored ranges, so K = 3 is in the quick tier too
        for K in range(0, 4):
            if K == 3 and m == 'double' and tier != 'thorough':
                continue    # 8 minutes of solver time: thorough tier only
            sumc = (SUM_INT % dict(m=m)) if m != 'double' else ''
            J('MultiRange_addRange', K, _harness(m, c, K, H_ADD.replace('%(sumcheck)s', sumc), tier), unwind=K + 3, note='WF, union, totalLength')
        for K in range(0, kmax + 1):
            J('MultiRange_restrictTo', K, _harness(m, c, K, H_RESTRICT, tier), note='WF, intersection')
            J('MultiRange_filterWithin', K, _harness(m, c, K, H_FILTER.replace('%(CLS)s', 'MultiRange').replace('%(ordered)d', '1'), tier), note='keeps exactly the contained ranges')
            J('RangeSet_filterWithin', K, _harness(m, c, K, H_FILTER.replace('%(CLS)s', 'RangeSet').replace('%(ordered)d', '0'), tier), note='keeps exactly the contained ranges')
            for cls, o in (('MultiRange', 1), ('RangeSet', 0)):
                J(cls + '_copyctor', K, _harness(m, c, K, H_COPY.replace('%(CLS)s', cls).replace('%(ordered)d', str(o)).replace('%(copy)s', '%s_%%(m)s__ctor_copy(&b, &a);' % cls), tier), note='deep, independent copy')
                J(cls + '_assign', K, _harness(m, c, K, H_COPY.replace('%(CLS)s', cls).replace('%(ordered)d', str(o)).replace('%(copy)s', '%s_%%(m)s__ctor_0(&b); { Range_%%(m)s *p0 = (Range_%%(m)s*)verif_new(sizeof(Range_%%(m)s)); p0->begin_ = 0; p0->end_ = 1; Vec_p_Range_%%(m)s__push_back(&b.ranges_, &p0); } %s_%%(m)s__op_assign(&b, &a);' % (cls, cls)), tier), note='assignment replaces the contents by a deep copy')
            J('MultiRange_getBounds', K, _harness(m, c, K, H_BOUNDS, tier), unwind=2 * K + 2, note='bounds, size, isEmpty')
            sums = (SUM_SET % dict(m=m)) if m != 'double' else ''
            J('RangeSet_addRange', K, _harness(m, c, K, H_SET_ADD.replace('%(sumcheck)s', sums), tier), note='keeps non-empty, drops empty, totalLength')
            J('RangeSet_restrictTo', K, _harness(m, c, K, H_SET_RESTRICT, tier), note='individual intersection')
    return jobs
