"""C14 - graph tables stay consistent (graph layer only; DESIGN.md section 4, C14). Bounded in the id universe, inductive in the history."""
PROPERTY = 'C14'
LEVEL = 'model_checking'

TUS = {'gg': dict(src='#include "/repo/src/Bpp/Graph/GlobalGraph.cpp"\n', filter='bpp::GlobalGraph', flags=['-I/repo/src/Bpp/Graph'])}
GG = 'bpp::GlobalGraph'
MNE = 'std::map<unsigned int, unsigned int>'
ROW = 'std::pair<std::map<unsigned int, unsigned int>, std::map<unsigned int, unsigned int>>'
MNR = 'std::map<unsigned int, %s>' % ROW
PUU = 'std::pair<unsigned int, unsigned int>'
MEP = 'std::map<unsigned int, %s>' % PUU
ENE = 'std::pair<const unsigned int, unsigned int>'
ENR = 'std::pair<const unsigned int, %s>' % ROW
EEP = 'std::pair<const unsigned int, %s>' % PUU
VU = 'std::vector<unsigned int>'
CFG = dict(
    types={MNE: 'MapNE', ROW: 'Row', MNR: 'MapNR', PUU: 'PairUU', MEP: 'MapEP', ENE: 'EntNE', ENR: 'EntNR', EEP: 'EntEP',
           'std::set<bpp::GraphObserver *>': 'ObsSet', 'std::set<std::pair<unsigned int, unsigned int>>': 'SetPP', 'std::vector<GlobalGraph::Edge>': 'Vec_uint', 'std::vector<GlobalGraph::Node>': 'Vec_uint',
           'std::vector<Graph::NodeId>': 'Vec_uint', 'std::vector<Graph::EdgeId>': 'Vec_uint', 'std::vector<unsigned int>': 'Vec_uint'},
    plain={MNE, ROW, MNR, PUU, MEP, ENE, ENR, EEP, 'std::set<bpp::GraphObserver *>'},
    rename={(MNE, 'insert', 1): 'MapNE__insert_pair', (MNE, 'erase', 1): 'MapNE__erase', (MNR, 'erase', 1): 'MapNR__erase', (MEP, 'erase', 1): 'MapEP__erase',
            ('ctor', PUU, 2): 'PairUU__ctor_2', ('ctor', 'std::basic_string<char>', 1): 'Str__ctor_msg', ('ctor', ROW, 0): 'Row__ctor_0',
            (MNR, 'ctor', 1): 'MapNR__ctor_copy', ('ctor', MNR, 1): 'MapNR__ctor_copy', (GG, 'link', 2): 'GlobalGraph__link2', (GG, 'link', 3): 'GlobalGraph__link3',
            (VU, 'insert', 3): 'Vec_uint__insert_range'},
    free={('get', 1): [('type &&(std::pair<unsigned int, unsigned int> &&)', 'verif_get')],
          ('toString', 1): 'TextTools__toString_drop', ('min', 2): 'verif_minu', ('max', 2): 'verif_maxu'},
    range_for={MNE: ('ITER', 'MapNE__begin', 'MapNE__end'), MNR: ('ITER', 'MapNR__begin', 'MapNR__end'), MEP: ('ITER', 'MapEP__begin', 'MapEP__end'),
               VU: ('Vec_uint__size', 'Vec_uint__op_index'), 'std::vector<GlobalGraph::Edge>': ('Vec_uint__size', 'Vec_uint__op_index'), 'std::vector<GlobalGraph::Node>': ('Vec_uint__size', 'Vec_uint__op_index'),
               'std::vector<Graph::NodeId>': ('Vec_uint__size', 'Vec_uint__op_index'), 'std::vector<Graph::EdgeId>': ('Vec_uint__size', 'Vec_uint__op_index'), 'std::set<bpp::GraphObserver *>': ('ITER', 'ObsSet__begin', 'ObsSet__end')},
    drop={'GraphObserver__deletedEdgesUpdate', 'GraphObserver__deletedNodesUpdate'},
    throws=set(),
    type_aliases={'GlobalGraph::nodeStructureType': MNR, 'GlobalGraph::edgeStructureType': MEP, 'GlobalGraph::Node': 'unsigned int', 'GlobalGraph::Edge': 'unsigned int', 'Graph::NodeId': 'unsigned int', 'Graph::EdgeId': 'unsigned int'},
    struct_fields={GG: ['directed_', 'highestNodeID_', 'highestEdgeID_', 'nodeStructure_', 'edgeStructure_', 'root_']},
)
STRUCTS = [GG]
PRE_STRUCTS = r'''
#include "vec.h"
#include "str.h"
#include "map.h"
#ifndef NU
#define NU 4
#endif
#ifndef NE
#define NE 5
#endif
VEC_DECL(unsigned int, Vec_uint)
typedef struct PairUU { unsigned int first, second; } PairUU;
MAP_DECL(unsigned int, MapNE, EntNE, NU, SCALAR_INIT)
typedef struct Row { MapNE first, second; } Row;
static inline void Row__ctor_0(Row *r) { MapNE__ctor_0(&r->first); MapNE__ctor_0(&r->second); }
static inline Row Row__make_0(void) { Row r; Row__ctor_0(&r); return r; }
MAP_DECL(Row, MapNR, EntNR, NU, Row__ctor_0)
#define PAIR_INIT(p) ((p)->first = 0, (p)->second = 0)
MAP_DECL(PairUU, MapEP, EntEP, NE, PAIR_INIT)
static inline void PairUU__ctor_2(PairUU *p, const unsigned int *a, const unsigned int *b) { p->first = *a; p->second = *b; }
static inline PairUU PairUU__make_2(const unsigned int *a, const unsigned int *b) { PairUU p; p.first = *a; p.second = *b; return p; }
/* std::map::insert(pair): no effect when the key is present */
static inline void MapNE__insert_pair(MapNE *m, const PairUU *kv) {
  __CPROVER_assert(kv->first < NU, "verif_model_bound: key outside the bounded key universe of the map model"); __CPROVER_assume(kv->first < NU);
  if (!m->e[kv->first].verif_present) { m->e[kv->first].verif_present = 1; m->e[kv->first].first = kv->first; m->e[kv->first].second = kv->second; } }
typedef struct ObsSet { int dummy; } ObsSet;
static inline void MapNR__ctor_copy(MapNR *m, const MapNR *o) { *m = *o; }
static inline const unsigned int *verif_minu(const unsigned int *a, const unsigned int *b) { return *b < *a ? b : a; }
static inline const unsigned int *verif_maxu(const unsigned int *a, const unsigned int *b) { return *a < *b ? b : a; }
/* std::set<pair<Node, Node>> over the bounded id universe */
typedef struct SetPP { _Bool in[NU * NU]; } SetPP;
typedef struct SetPPIns { void *first; _Bool second; } SetPPIns;
static inline void SetPP__ctor_0(SetPP *s) { *s = (SetPP){{0}}; }
static inline SetPPIns SetPP__insert(SetPP *s, const PairUU *p) { SetPPIns r; r.first = 0;
  __CPROVER_assert(p->first < NU && p->second < NU, "verif_model_bound: key outside the bounded key universe of the set model"); __CPROVER_assume(p->first < NU && p->second < NU);
  r.second = !s->in[p->first * NU + p->second]; s->in[p->first * NU + p->second] = 1; return r; }
/* strings only carry exception messages here: not modelled */
static inline void Str__ctor_msg(Str *s, const char *p) { s->d = 0; s->n = 0; }
static inline Str Str__make_msg(const char *p) { Str r; r.d = 0; r.n = 0; return r; }
'''
PRELUDE = r'''
/* observers are not modelled: the notification entry points record what they were told */
unsigned verif_note_calls, verif_note_last_n, verif_note_last0;
static inline void GlobalGraph__notifyDeletedEdges(GlobalGraph *self, Vec_uint *v) { verif_note_calls++; verif_note_last_n = (unsigned)v->n; if (v->n > 0) verif_note_last0 = v->d[0]; }
static inline void GlobalGraph__notifyDeletedNodes(GlobalGraph *self, Vec_uint *v) { }
'''
STUB_CONTRACTS = set()
def B(cname, name, **k):
    return dict(cname=cname, qname=GG + '::' + name, **k)
FUNCS = [
    B('GlobalGraph__nodeMustExist_', 'nodeMustExist_'), B('GlobalGraph__edgeMustExist_', 'edgeMustExist_'),
    B('GlobalGraph__link2', 'link', sig='(Graph::NodeId, Graph::NodeId)'), B('GlobalGraph__link3', 'link', sig='(Graph::NodeId, Graph::NodeId, GlobalGraph::Edge)'),
    B('GlobalGraph__unlink', 'unlink'), B('GlobalGraph__switchNodes', 'switchNodes'),
    B('GlobalGraph__unlinkInEdgeStructure_', 'unlinkInEdgeStructure_'), B('GlobalGraph__linkInEdgeStructure_', 'linkInEdgeStructure_'),
    B('GlobalGraph__unlinkInNodeStructure_', 'unlinkInNodeStructure_'), B('GlobalGraph__linkInNodeStructure_', 'linkInNodeStructure_'),
    B('GlobalGraph__createNode', 'createNode'), B('GlobalGraph__createNodeFromNode', 'createNodeFromNode'), B('GlobalGraph__createNodeOnEdge', 'createNodeOnEdge'),
    B('GlobalGraph__isDirected', 'isDirected'), B('GlobalGraph__makeDirected', 'makeDirected'), B('GlobalGraph__makeUndirected', 'makeUndirected'), B('GlobalGraph__containsReciprocalRelations', 'containsReciprocalRelations'),
    B('GlobalGraph__topologyHasChanged_', 'topologyHasChanged_'),
]
LEMMAS = []
REPLAY = {'re:^b_(link2|link3|unlink|deleteNode|createNodeFromNode|createNodeOnEdge|makeDirected|makeUndirected|switchNodes)': dict(adapter='c14_graph.cpp')}
TRUSTED = ['std::map<unsigned, V> modelled by stubs/map.h over a bounded key universe', 'observers are not modelled (notifications dropped)']
ASSUMPTIONS = []
NOT_DECIDED = ['association (observer) layer, iterator classes, copies of observers']
FUNCS += [
    B('GlobalGraph__deleteNode', 'deleteNode'), B('GlobalGraph__isolate_', 'isolate_'),
    B('GlobalGraph__getNeighbors_', 'getNeighbors_'), B('GlobalGraph__getEdges_', 'getEdges_'),
    B('GlobalGraph__getOutgoingNeighbors', 'getOutgoingNeighbors'), B('GlobalGraph__getIncomingNeighbors', 'getIncomingNeighbors'),
    B('GlobalGraph__getOutgoingEdges', 'getOutgoingEdges'), B('GlobalGraph__getIncomingEdges', 'getIncomingEdges'),
    B('GlobalGraph__getNumberOfNodes', 'getNumberOfNodes'), B('GlobalGraph__getNumberOfEdges', 'getNumberOfEdges'),
    B('GlobalGraph__getDegree', 'getDegree'), B('GlobalGraph__getEdge', 'getEdge'), B('GlobalGraph__getAnyEdge', 'getAnyEdge'),
    B('GlobalGraph__getNumberOfOutgoingNeighbors', 'getNumberOfOutgoingNeighbors'), B('GlobalGraph__getNumberOfIncomingNeighbors', 'getNumberOfIncomingNeighbors'),
    B('GlobalGraph__getNumberOfNeighbors', 'getNumberOfNeighbors'),
]
HC = r"""
#define FORN(i) for (unsigned i = 0; i < NU; ++i)
#define FORE(e) for (unsigned e = 0; e < NE; ++e)
/* abstract multigraph read off the edge table: named inputs */
_Bool in_np[NU]; _Bool in_ep[NE]; unsigned in_ea[NE], in_eb[NE]; _Bool in_directed; unsigned in_hn, in_he; unsigned in_a, in_b;   /* in_a, in_b: the arguments of the operation */
#define OUT(g, a) ((g)->nodeStructure_.e[a].second.first)
#define INC(g, a) ((g)->nodeStructure_.e[a].second.second)
#define HASN(g, a) ((g)->nodeStructure_.e[a].verif_present)
#define HASE(g, x) ((g)->edgeStructure_.e[x].verif_present)
#define EA(g, x) ((g)->edgeStructure_.e[x].second.first)
#define EB(g, x) ((g)->edgeStructure_.e[x].second.second)
/* WF: the redundant node / edge tables agree */
static _Bool wf(const GlobalGraph *g) {
  FORE(x) if (HASE(g, x)) { unsigned a = EA(g, x), b = EB(g, x);
    if (!(a < NU && b < NU && HASN(g, a) && HASN(g, b))) return 0;                                      /* every edge has two existing end points */
    if (!(OUT(g, a).e[b].verif_present && OUT(g, a).e[b].second == x && INC(g, b).e[a].verif_present && INC(g, b).e[a].second == x)) return 0;   /* and is listed by both */
    if (!g->directed_ && !(OUT(g, b).e[a].verif_present && OUT(g, b).e[a].second == x && INC(g, a).e[b].verif_present && INC(g, a).e[b].second == x)) return 0;
    if (!(x < g->highestEdgeID_)) return 0; }
  FORN(a) { if (HASN(g, a)) { if (!(a < g->highestNodeID_)) return 0;
      FORN(b) { if (OUT(g, a).e[b].verif_present) { unsigned x = OUT(g, a).e[b].second;                      /* every listed relation has its edge-table entry */
          if (!(x < NE && HASE(g, x) && HASN(g, b) && ((EA(g, x) == a && EB(g, x) == b) || (!g->directed_ && EA(g, x) == b && EB(g, x) == a)))) return 0; }
        if (INC(g, a).e[b].verif_present) { unsigned x = INC(g, a).e[b].second;
          if (!(x < NE && HASE(g, x) && HASN(g, b) && ((EA(g, x) == b && EB(g, x) == a) || (!g->directed_ && EA(g, x) == a && EB(g, x) == b)))) return 0; } } }
    else { FORN(b) if (OUT(g, a).e[b].verif_present || INC(g, a).e[b].verif_present) { /* rows of absent nodes are not observable */ } } }
  return 1; }
/* an arbitrary well-formed graph */
static void mk_graph(GlobalGraph *g) {
  MapNR__ctor_0(&g->nodeStructure_); MapEP__ctor_0(&g->edgeStructure_);
#ifdef FIX_DIRECTED
  g->directed_ = in_directed = FIX_DIRECTED;       /* a constant, so that symbolic execution prunes the other mode */
#else
  g->directed_ = in_directed = nondet_bool();
#endif
  g->root_ = 0;
  g->highestNodeID_ = nondet_uint(); g->highestEdgeID_ = nondet_uint(); __CPROVER_assume(g->highestNodeID_ <= NU && g->highestEdgeID_ <= NE); in_hn = g->highestNodeID_; in_he = g->highestEdgeID_;
  FORN(a) { in_np[a] = nondet_bool(); g->nodeStructure_.e[a].verif_present = in_np[a]; Row__ctor_0(&g->nodeStructure_.e[a].second);
    FORN(b) { OUT(g, a).e[b].verif_present = nondet_bool(); OUT(g, a).e[b].second = nondet_uint(); INC(g, a).e[b].verif_present = nondet_bool(); INC(g, a).e[b].second = nondet_uint(); } }
  FORE(x) { in_ep[x] = nondet_bool(); in_ea[x] = nondet_uint(); in_eb[x] = nondet_uint(); g->edgeStructure_.e[x].verif_present = in_ep[x]; g->edgeStructure_.e[x].second.first = in_ea[x]; g->edgeStructure_.e[x].second.second = in_eb[x]; }
  /* rows of absent nodes are empty */
  FORN(a) if (!in_np[a]) FORN(b) __CPROVER_assume(!OUT(g, a).e[b].verif_present && !INC(g, a).e[b].verif_present);
  __CPROVER_assume(wf(g)); }
static _Bool same_tables(const GlobalGraph *g, const GlobalGraph *h) {
  FORN(a) { if (HASN(g, a) != HASN(h, a)) return 0; FORN(b) { if (OUT(g, a).e[b].verif_present != OUT(h, a).e[b].verif_present || INC(g, a).e[b].verif_present != INC(h, a).e[b].verif_present) return 0;
      if (OUT(g, a).e[b].verif_present && OUT(g, a).e[b].second != OUT(h, a).e[b].second) return 0; if (INC(g, a).e[b].verif_present && INC(g, a).e[b].second != INC(h, a).e[b].second) return 0; } }
  FORE(x) { if (HASE(g, x) != HASE(h, x)) return 0; if (HASE(g, x) && (EA(g, x) != EA(h, x) || EB(g, x) != EB(h, x))) return 0; }
  return 1; }
#define CANARY() __CPROVER_assert(0, "verif_canary reachable after call")
"""
H = {}
H['createNode'] = HC + r"""
void h(void) { GlobalGraph g; mk_graph(&g); __CPROVER_assume(g.highestNodeID_ < NU); GlobalGraph g0 = g; verif_exc = 0;
  unsigned n = GlobalGraph__createNode(&g);
  __CPROVER_assert(verif_exc == 0 && n == g0.highestNodeID_ && HASN(&g, n) && !HASN(&g0, n), "createNode returns a new node id and the node exists");
  __CPROVER_assert(wf(&g), "after createNode the node and edge tables agree");
  FORN(a) if (a != n) __CPROVER_assert(HASN(&g, a) == HASN(&g0, a), "createNode leaves the other nodes alone");
  FORE(x) __CPROVER_assert(HASE(&g, x) == HASE(&g0, x), "createNode creates no edge");
  __CPROVER_assert(MapNE__size(&OUT(&g, n)) == 0 && MapNE__size(&INC(&g, n)) == 0, "a new node has no neighbour");
  CANARY(); }
"""
H['link2'] = HC + r"""
void h(void) { GlobalGraph g; mk_graph(&g); __CPROVER_assume(g.highestEdgeID_ < NE); GlobalGraph g0 = g; verif_exc = 0;
  unsigned a = in_a = nondet_uint(), b = in_b = nondet_uint(); __CPROVER_assume(a < NU && b < NU);            /* present or absent nodes */
  _Bool ok = HASN(&g, a) && HASN(&g, b) && !OUT(&g, a).e[b].verif_present;                                    /* a row holds one edge per neighbour: an existing relation cannot be doubled */
  unsigned x = GlobalGraph__link2(&g, a, b);
  __CPROVER_assert(wf(&g), "after link (raising or not) every edge has two existing end points and is listed by both of them");
  __CPROVER_assert(verif_exc == 0 || verif_exc == EXC_Exception, "link raises nothing but the library's exception");
  __CPROVER_assert((verif_exc == 0) == ok, "link succeeds iff both nodes exist and are not linked yet");
  if (verif_exc != 0) __CPROVER_assert(same_tables(&g, &g0), "a raising link leaves the tables unchanged");
  else { __CPROVER_assert(x == g0.highestEdgeID_ && HASE(&g, x) && EA(&g, x) == a && EB(&g, x) == b, "the new edge joins the two nodes");
    FORE(y) if (y != x) __CPROVER_assert(HASE(&g, y) == HASE(&g0, y) && (!HASE(&g, y) || (EA(&g, y) == EA(&g0, y) && EB(&g, y) == EB(&g0, y))), "the other edges are untouched"); }
  CANARY(); }
"""
H['link3'] = HC + r"""
unsigned in_x;
void h(void) { GlobalGraph g; mk_graph(&g); GlobalGraph g0 = g; verif_exc = 0;
  unsigned a = in_a = nondet_uint(), b = in_b = nondet_uint(), x = in_x = nondet_uint(); __CPROVER_assume(a < NU && b < NU && x < NE);
  _Bool ok = HASN(&g, a) && HASN(&g, b) && !OUT(&g, a).e[b].verif_present && !HASE(&g, x);
  GlobalGraph__link3(&g, a, b, x);
  __CPROVER_assert(verif_exc == 0 || verif_exc == EXC_Exception, "link raises nothing but the library's exception");
  __CPROVER_assert((verif_exc == 0) == ok, "link with a given id succeeds iff both nodes exist, are not linked yet and the id is free");
  if (verif_exc != 0) __CPROVER_assert(same_tables(&g, &g0), "a raising link leaves the tables unchanged");
  else { __CPROVER_assert(HASE(&g, x) && EA(&g, x) == a && EB(&g, x) == b, "the new edge joins the two nodes");
    FORE(y) if (y != x) __CPROVER_assert(HASE(&g, y) == HASE(&g0, y) && (!HASE(&g, y) || (EA(&g, y) == EA(&g0, y) && EB(&g, y) == EB(&g0, y))), "the other edges are untouched"); }
  __CPROVER_assert(wf(&g), "after link with a given id (raising or not) the tables agree and no later link can be handed an id in use");
  CANARY(); }
"""
H['createNodeFromNode'] = HC + r"""
void h(void) { GlobalGraph g; mk_graph(&g); __CPROVER_assume(g.highestEdgeID_ < NE && g.highestNodeID_ < NU); GlobalGraph g0 = g; verif_exc = 0;
  unsigned a = in_a = nondet_uint(); __CPROVER_assume(a < NU);
  unsigned n = GlobalGraph__createNodeFromNode(&g, a);
  __CPROVER_assert(verif_exc == 0 || verif_exc == EXC_Exception, "createNodeFromNode raises nothing but the library's exception");
  __CPROVER_assert((verif_exc != 0) == !HASN(&g0, a), "createNodeFromNode raises iff the origin is absent");
  if (verif_exc != 0) __CPROVER_assert(same_tables(&g, &g0), "a raising createNodeFromNode leaves the tables unchanged");
  else { unsigned x = g0.highestEdgeID_;
    __CPROVER_assert(n == g0.highestNodeID_ && HASN(&g, n) && !HASN(&g0, n), "a new node is created");
    __CPROVER_assert(HASE(&g, x) && !HASE(&g0, x) && EA(&g, x) == a && EB(&g, x) == n, "a new edge joins the origin to the new node");
    FORE(y) if (y != x) __CPROVER_assert(HASE(&g, y) == HASE(&g0, y) && (!HASE(&g, y) || (EA(&g, y) == EA(&g0, y) && EB(&g, y) == EB(&g0, y))), "the other edges are untouched");
    FORN(c) if (c != n) __CPROVER_assert(HASN(&g, c) == HASN(&g0, c), "the other nodes stay"); }
  __CPROVER_assert(wf(&g), "after createNodeFromNode (raising or not) the node and edge tables agree");
  CANARY(); }
"""
H['createNodeOnEdge'] = HC + r"""
unsigned in_x;
void h(void) { GlobalGraph g; mk_graph(&g); __CPROVER_assume(g.highestEdgeID_ < NE - 1 && g.highestNodeID_ < NU); GlobalGraph g0 = g; verif_exc = 0;
  unsigned x = in_x = nondet_uint(); __CPROVER_assume(x < NE);
  unsigned n = GlobalGraph__createNodeOnEdge(&g, x);
  __CPROVER_assert(verif_exc == 0 || verif_exc == EXC_Exception, "createNodeOnEdge raises nothing but the library's exception");
  __CPROVER_assert((verif_exc != 0) == (!HASE(&g0, x) || (!g0.directed_ && EA(&g0, x) == EB(&g0, x))), "createNodeOnEdge raises iff the edge is absent or is a loop of an undirected graph (the two halves would be parallel edges, which a row cannot hold)");
  if (verif_exc != 0) __CPROVER_assert(same_tables(&g, &g0), "a raising createNodeOnEdge leaves the tables unchanged");
  else { unsigned x1 = g0.highestEdgeID_, x2 = g0.highestEdgeID_ + 1, a = EA(&g0, x), b = EB(&g0, x);
    __CPROVER_assert(n == g0.highestNodeID_ && HASN(&g, n) && !HASN(&g0, n), "a new node is created");
    __CPROVER_assert(!HASE(&g, x), "the split edge is gone");
    __CPROVER_assert(HASE(&g, x1) && EA(&g, x1) == a && EB(&g, x1) == n && HASE(&g, x2) && EA(&g, x2) == n && EB(&g, x2) == b, "two new edges join the new node to the end points of the split edge");
    FORE(y) if (y != x && y != x1 && y != x2) __CPROVER_assert(HASE(&g, y) == HASE(&g0, y) && (!HASE(&g, y) || (EA(&g, y) == EA(&g0, y) && EB(&g, y) == EB(&g0, y))), "the other edges are untouched");
    FORN(c) if (c != n) __CPROVER_assert(HASN(&g, c) == HASN(&g0, c), "the other nodes stay"); }
  __CPROVER_assert(wf(&g), "after createNodeOnEdge (raising or not) the node and edge tables agree");
  CANARY(); }
"""
H['unlink'] = HC + r"""
void h(void) { GlobalGraph g; mk_graph(&g); GlobalGraph g0 = g; verif_exc = 0;
  unsigned a = in_a = nondet_uint(), b = in_b = nondet_uint(); __CPROVER_assume(a < NU && b < NU);
  _Bool linked = HASN(&g, a) && HASN(&g, b) && OUT(&g, a).e[b].verif_present; unsigned x0 = OUT(&g, a).e[b].second;
  Vec_uint del = GlobalGraph__unlink(&g, a, b);
  __CPROVER_assert(verif_exc == 0 || verif_exc == EXC_Exception, "unlink raises nothing but the library's exception");
  __CPROVER_assert((verif_exc != 0) == !linked, "unlink raises iff there is no edge from the first to the second node (absent nodes included)");
  if (verif_exc != 0) __CPROVER_assert(same_tables(&g, &g0), "a raising unlink leaves the tables unchanged");
  else { __CPROVER_assert(del.n == 1 && del.d[0] == x0 && !HASE(&g, x0), "unlink removes and reports exactly the edge between the two nodes");
    FORE(y) if (y != x0) __CPROVER_assert(HASE(&g, y) == HASE(&g0, y), "the other edges are untouched"); }
  __CPROVER_assert(wf(&g), "after unlink (raising or not) the node and edge tables agree");
  CANARY(); }
"""
H['deleteNode'] = HC + r"""
void h(void) { GlobalGraph g; mk_graph(&g); GlobalGraph g0 = g; verif_exc = 0;
  unsigned a = in_a = nondet_uint(); __CPROVER_assume(a < NU);
  GlobalGraph__deleteNode(&g, a);
  __CPROVER_assert((verif_exc != 0) == !HASN(&g0, a) && (verif_exc == 0 || verif_exc == EXC_Exception), "deleteNode raises iff the node is absent");
  if (verif_exc != 0) __CPROVER_assert(same_tables(&g, &g0), "a raising deleteNode leaves the tables unchanged");
  else { __CPROVER_assert(!HASN(&g, a), "the node is gone");
    FORE(y) __CPROVER_assert(HASE(&g, y) == (HASE(&g0, y) && EA(&g0, y) != a && EB(&g0, y) != a), "exactly the edges touching the node are removed");
    FORN(c) if (c != a) __CPROVER_assert(HASN(&g, c) == HASN(&g0, c), "the other nodes stay"); }
  __CPROVER_assert(wf(&g), "after deleteNode (raising or not) the node and edge tables agree");
  CANARY(); }
"""
H['queries'] = HC + r"""
void h(void) { GlobalGraph g; mk_graph(&g); GlobalGraph g0 = g; verif_exc = 0;
  unsigned a = nondet_uint(); __CPROVER_assume(a < NU);
  /* neighbour, edge, degree and count queries against the abstract multigraph read off the edge table */
  unsigned long nn = 0, ne = 0; FORN(c) if (in_np[c]) nn++; FORE(x) if (in_ep[x]) ne++;
  __CPROVER_assert(GlobalGraph__getNumberOfNodes(&g) == nn && GlobalGraph__getNumberOfEdges(&g) == ne, "node and edge counts match the reference multigraph");
  Vec_uint on = GlobalGraph__getOutgoingNeighbors(&g, a);
  if (!in_np[a]) __CPROVER_assert(verif_exc == EXC_Exception, "queries on an absent node raise");
  else { __CPROVER_assert(verif_exc == 0, "queries on an existing node do not raise");
    unsigned long k = 0; FORN(b) { _Bool nb = 0; FORE(x) if (in_ep[x] && ((in_ea[x] == a && in_eb[x] == b) || (!in_directed && in_ea[x] == b && in_eb[x] == a))) nb = 1;
      if (nb) { __CPROVER_assert(k < on.n && on.d[k] == b, "outgoing neighbours are exactly the reference ones (ascending ids)"); k++; } }
    __CPROVER_assert(k == on.n, "no other outgoing neighbour is listed");
    Vec_uint ie = GlobalGraph__getIncomingEdges(&g, a); unsigned long m = 0;
    FORN(b) FORE(x) if (in_ep[x] && ((in_eb[x] == a && in_ea[x] == b) || (!in_directed && in_ea[x] == a && in_eb[x] == b))) { __CPROVER_assert(m < ie.n && ie.d[m] == x, "incoming edges are exactly the reference ones"); m++; }
    __CPROVER_assert(m == ie.n, "no other incoming edge is listed");
    unsigned long deg = GlobalGraph__getDegree(&g, a); unsigned long rd = 0; FORE(x) if (in_ep[x]) { if (in_ea[x] == a) rd++; if (in_eb[x] == a && (in_directed || in_ea[x] != a)) rd++; }
    __CPROVER_assert(deg == rd, "degree matches the reference multigraph"); }
  __CPROVER_assert(same_tables(&g, &g0), "queries do not modify the graph");
  CANARY(); }
"""
H['makeUndirected'] = HC + r"""
void h(void) { GlobalGraph g; mk_graph(&g); GlobalGraph g0 = g; verif_exc = 0;
  _Bool recip = 0; FORN(a) FORN(b) if (a != b && HASN(&g, a) && OUT(&g, a).e[b].verif_present && OUT(&g, b).e[a].verif_present) recip = 1;
  GlobalGraph__makeUndirected(&g);
  __CPROVER_assert(verif_exc == 0 || verif_exc == EXC_Exception, "makeUndirected raises nothing but the library's exception");
  __CPROVER_assert((verif_exc != 0) == (g0.directed_ && recip), "makeUndirected raises iff two nodes of the directed graph are linked in both directions");
  if (verif_exc != 0 || !g0.directed_) __CPROVER_assert(same_tables(&g, &g0) && g.directed_ == g0.directed_, "a raising makeUndirected, or one on an undirected graph, changes nothing");
  else __CPROVER_assert(!g.directed_, "the graph is undirected afterwards");
  FORN(c) __CPROVER_assert(HASN(&g, c) == HASN(&g0, c), "the nodes stay");
  FORE(y) __CPROVER_assert(HASE(&g, y) == HASE(&g0, y) && (!HASE(&g, y) || (EA(&g, y) == EA(&g0, y) && EB(&g, y) == EB(&g0, y))), "the edge table is untouched");
  __CPROVER_assert(wf(&g), "after makeUndirected (raising or not) every edge is listed by both end points in both directions");
  CANARY(); }
"""
H['makeDirected'] = HC + r"""
void h(void) { GlobalGraph g; mk_graph(&g); GlobalGraph g0 = g; verif_exc = 0;
  GlobalGraph__makeDirected(&g);
  __CPROVER_assert(verif_exc == 0, "makeDirected does not raise");
  if (g0.directed_) __CPROVER_assert(same_tables(&g, &g0), "makeDirected on a directed graph changes nothing");
  __CPROVER_assert(g.directed_, "the graph is directed afterwards");
  FORN(c) __CPROVER_assert(HASN(&g, c) == HASN(&g0, c), "the nodes stay");
  FORE(y) __CPROVER_assert(HASE(&g, y) == HASE(&g0, y) && (!HASE(&g, y) || (EA(&g, y) == EA(&g0, y) && EB(&g, y) == EB(&g0, y)) || (!g0.directed_ && EA(&g, y) == EB(&g0, y) && EB(&g, y) == EA(&g0, y))), "the same edges join the same pairs of nodes (the direction given to an undirected edge is the implementation's choice)");
  __CPROVER_assert(wf(&g), "after makeDirected every edge leaves its first end point and enters its second one, in the rows as in the edge table");
  CANARY(); }
"""
H['switchNodes'] = HC + r"""
void h(void) { GlobalGraph g; mk_graph(&g); GlobalGraph g0 = g; verif_exc = 0;
  unsigned a = in_a = nondet_uint(), b = in_b = nondet_uint(); __CPROVER_assume(a < NU && b < NU);
  /* protected: its callers (orientate, TreeGraphImpl::propagateDirection_) pass existing nodes of a directed graph */
  __CPROVER_assume(g.directed_ && HASN(&g, a) && HASN(&g, b));
  _Bool ab = OUT(&g, a).e[b].verif_present, ba = OUT(&g, b).e[a].verif_present; unsigned x = ab ? OUT(&g, a).e[b].second : OUT(&g, b).e[a].second;
  GlobalGraph__switchNodes(&g, a, b);
  __CPROVER_assert(verif_exc == 0 || verif_exc == EXC_Exception, "switchNodes raises nothing but the library's exception");
  __CPROVER_assert((verif_exc != 0) == ((!ab && !ba) || (ab && ba && a != b)), "switchNodes raises iff the two nodes are not linked, or are linked in both directions (the reversed edge would be a second edge of a row entry)");
  if (verif_exc != 0) __CPROVER_assert(same_tables(&g, &g0), "a raising switchNodes leaves the tables unchanged");
  else { __CPROVER_assert(HASE(&g, x) && EA(&g, x) == EB(&g0, x) && EB(&g, x) == EA(&g0, x), "the edge between the two nodes now runs the other way");
    FORE(y) if (y != x) __CPROVER_assert(HASE(&g, y) == HASE(&g0, y) && (!HASE(&g, y) || (EA(&g, y) == EA(&g0, y) && EB(&g, y) == EB(&g0, y))), "the other edges are untouched"); }
  __CPROVER_assert(wf(&g), "after switchNodes (raising or not) the node and edge tables agree");
  CANARY(); }
"""
def generate_jobs(unit, tier):
    jobs = []
    bodies = [f['cname'] for f in FUNCS]
    def add(op, suffix, nu, ne, extra='', what='', unwind=None, mem_gb=None):
        jobs.append(dict(id='b_%s%s' % (op, suffix), kind='bounded', mode='bounded', entry='h', bodies=bodies, harness=H[op], unwind=unwind or 2 * max(nu, ne), timeout=3000, mem_kb=(mem_gb * 1024 * 1024 if mem_gb else None),
                         defs='#define NU %d\n#define NE %d\n#define VEC_BCAP 6\n#define MAP_MAXNU %d\n%s' % (nu, ne, max(nu, ne), extra),
                         bound='id universe: %d node ids, %d edge ids; arbitrary well-formed %sgraph; arguments present or absent' % (nu, ne, what or 'directed or undirected '),
                         doc='%s from an arbitrary well-formed graph' % op))
    for op in ('createNode', 'link2', 'link3', 'unlink', 'createNodeFromNode', 'createNodeOnEdge', 'switchNodes', 'queries'):
        add(op, '', 3, 4)
    # the conversions copy and rebuild the whole node table: no vectors, loops bounded by the id universe
    for op, d in (('makeDirected', 0), ('makeUndirected', 1)):
        add(op, '', 3, 3, '#define FIX_DIRECTED %d\n' % d, ('undirected ', 'directed ')[d], unwind=5, mem_gb=28)
        add(op, '_noop', 3, 3, '#define FIX_DIRECTED %d\n' % (1 - d), ('undirected ', 'directed ')[1 - d], unwind=5, mem_gb=28)
    # deleteNode runs unlink once per incident relation: split by directedness; the 4-edge universe is thorough only
    for d, w in ((1, 'directed '), (0, 'undirected ')):
        add('deleteNode', '_%s3' % w[0], 3, 3, '#define FIX_DIRECTED %d\n' % d, w)
        if tier == 'thorough':
            add('deleteNode', '_%s4' % w[0], 3, 4, '#define FIX_DIRECTED %d\n' % d, w)
    return jobs
