"""C17 - writing then reading gives back the same data: clauses within reach, all bounded (DESIGN.md section 4, C17)."""
PROPERTY = 'C17'
LEVEL = 'model_checking'
import importlib.util, os
_spec = importlib.util.spec_from_file_location('unit_C16_for_C17', os.path.join(os.path.dirname(__file__), 'C16.py'))
_c16 = importlib.util.module_from_spec(_spec); _spec.loader.exec_module(_c16)

TUS = {k: _c16.TUS[k] for k in ('tt', 'st', 'nst')}
TUS['at'] = dict(src='#include "/repo/src/Bpp/App/ApplicationTools.cpp"\n', filter='bpp::ApplicationTools', flags=['-I/repo/src/Bpp/App', '-I/repo/src'])
CFG = dict(_c16.CFG)
CFG['rename'] = dict(CFG['rename']); CFG['defaults'] = dict(CFG['defaults'])
_S = 'std::basic_string<char>'
CFG['rename'].update({(_S, 'find', 2, 'args:Str,default'): 'Str__find', (_S, 'rfind', 2, 'args:Str,default'): 'Str__rfind',
                      ('ctor', 'bpp::StringTokenizer', 4, 'void (const std::string &, const std::string &, bool, bool)'): 'StringTokenizer__ctor_4'})
CFG['defaults'].update({('Str__find', 1): '0', ('Str__rfind', 1): 'STR_NPOS'})
CFG['types'] = dict(CFG['types']); CFG['types'].update({'vector<std::string>': 'Vec_Str', 'std::vector<std::string>': 'Vec_Str', 'std::vector<std::basic_string<char>>': 'Vec_Str', 'vector<std::basic_string<char>>': 'Vec_Str'})
STRUCTS = list(_c16.STRUCTS)
PRE_STRUCTS = _c16.PRE_STRUCTS   # declares Deq_Str and Vec_Str
PRELUDE = _c16.PRELUDE
STUB_CONTRACTS = set()
# the same extracted functions as C16, used here with their real bodies only (no contracts)
KEEP = ('TextTools__isDecimalNumber_c', 'TextTools__isDecimalNumber', 'TextTools__isDecimalInteger', 'TextTools__toInt', 'TextTools__toDouble',
        'StringTokenizer__ctor_4', 'StringTokenizer__ctor_0', 'NestedStringTokenizer__ctor_5', 'StringTokenizer__unparseRemainingTokens', 'StringTokenizer__numberOfRemainingTokens', 'StringTokenizer__hasMoreToken')
FUNCS = [dict(cname=f['cname'], qname=f['qname'], sig=f.get('sig')) for f in _c16.FUNCS if f['cname'] in KEEP]
FUNCS += [dict(cname='StringTokenizer__nextToken', qname='bpp::StringTokenizer::nextToken'),
          dict(cname='ApplicationTools__matchingParameters_v', qname='bpp::ApplicationTools::matchingParameters', sig='(const std::string &, vector<std::string> &)')]

GRAMMAR = r'''
/* the strict decimal grammar, as a DFA over five character classes (D digit, '-', '+', dec, sci; anything else rejects)
     number  := '-'? ( D+ (dec D*)? | dec D+ ) ( sci ('+'|'-')? D+ )?
     integer := '-'? D+ ( sci '+'? D+ )?
   dec and sci are distinct and are neither digits nor signs (precondition of the check) */
#include "spec_C17.h"
char in_c[LEN + 1]; char in_dec, in_sci;
static void mk_str(Str *s) { s->d = (char*)verif_new_array(STR_BCAP, 1); s->n = LEN; for (int i = 0; i < LEN; ++i) { in_c[i] = nondet_char(); s->d[i] = in_c[i]; } s->d[LEN] = 0; }
'''
H_NUMBER = GRAMMAR + r'''
void h(void) { Str s; mk_str(&s); in_dec = nondet_char(); in_sci = nondet_char();
  __CPROVER_assume(SPECIAL_OK(in_dec) && SPECIAL_OK(in_sci) && in_dec != in_sci);
  int q = Q0; for (int i = 0; i < LEN; ++i) q = step_number(q, in_c[i], in_dec, in_sci);
  verif_exc = 0;
  _Bool r = TextTools__isDecimalNumber(&s, in_dec, in_sci);
  __CPROVER_assert(verif_exc == 0, "isDecimalNumber does not raise");
  __CPROVER_assert(r == ACCEPT_NUMBER(q), "isDecimalNumber accepts exactly the strings of the strict decimal grammar");
  verif_exc = 0; TextTools__toDouble(&s, in_dec, in_sci);
  __CPROVER_assert((verif_exc == EXC_Exception) == !ACCEPT_NUMBER(q) && (verif_exc == 0 || verif_exc == EXC_Exception), "toDouble raises Exception for exactly the strings outside the grammar");
  __CPROVER_assert(0, "verif_canary reachable after call"); }
'''
H_INTEGER = GRAMMAR + r'''
void h(void) { Str s; mk_str(&s); in_sci = nondet_char();
  __CPROVER_assume(SPECIAL_OK(in_sci));
  int q = Q0; for (int i = 0; i < LEN; ++i) q = step_integer(q, in_c[i], in_sci);
  verif_exc = 0;
  _Bool r = TextTools__isDecimalInteger(&s, in_sci);
  __CPROVER_assert(r == ACCEPT_INTEGER(q), "isDecimalInteger accepts exactly the strings of the strict integer grammar");
  verif_exc = 0; TextTools__toInt(&s, in_sci);
  __CPROVER_assert((verif_exc == EXC_Exception) == !ACCEPT_INTEGER(q) && (verif_exc == 0 || verif_exc == EXC_Exception), "toInt raises Exception for exactly the strings outside the grammar");
  __CPROVER_assert(0, "verif_canary reachable after call"); }
'''

def generate_jobs(unit, tier):
    jobs = []
    bodies = [f['cname'] for f in FUNCS]
    lmax = 12 if tier == 'thorough' else 10
    for L in range(0, lmax + 1):
        for name, text in (('number', H_NUMBER), ('integer', H_INTEGER)):
            jobs.append(dict(id='b_%s_grammar_len%d' % (name, L), kind='bounded', mode='bounded', entry='h', bodies=bodies, harness=text,
                             unwind=18, timeout=600, defs='#define LEN %d\n#define STR_BCAP 16\n#define VEC_BCAP 4\n' % L,
                             bound='string length %d exactly, every byte and the dec / sci characters symbolic; unwinding 18' % L,
                             doc='%s recognition against the DFA of the strict grammar' % name))
    return jobs

LEMMAS = []
REPLAY = {'re:^b_(number|integer)_grammar': dict(adapter='c17_grammar.cpp'), 're:^b_(tokenize|nested|glob)_': dict(adapter='c17_tokens.cpp')}
TRUSTED = ['std::string model of stubs/str.h (executable in these runs); fromString<T> unmodelled: the value clause of number conversion is not decided']
ASSUMPTIONS = ['dec and sci are distinct characters that are neither digits nor signs']
NOT_DECIDED = ['value returned by toDouble/toInt (iostream extraction), toString round trip, key-value procedures, argument substitution, variable resolution, tables, distribution descriptions (std::map, streams, files)']

# ---- tokenise / re-join -----------------------------------------------------------------------------------------------
H_TOK = r'''
char in_s[LEN + 1]; char in_d[DLEN + 1];
static _Bool isdelim(char c) { for (int k = 0; k < DLEN; ++k) if (in_d[k] == c) return 1; return 0; }
void h(void) {
  Str s, d; s.d = (char*)verif_new_array(STR_BCAP, 1); s.n = LEN; d.d = (char*)verif_new_array(STR_BCAP, 1); d.n = DLEN;
  for (int i = 0; i < LEN; ++i) { in_s[i] = nondet_char(); __CPROVER_assume(in_s[i] == 'a' || in_s[i] == 'b' || in_s[i] == ',' || in_s[i] == ';'); s.d[i] = in_s[i]; } s.d[LEN] = 0;
  for (int i = 0; i < DLEN; ++i) { in_d[i] = nondet_char(); __CPROVER_assume(in_d[i] == ',' || in_d[i] == ';'); d.d[i] = in_d[i]; } d.d[DLEN] = 0;
  StringTokenizer st; verif_exc = 0;
  StringTokenizer__ctor_4(&st, &s, &d, SOLID, ALLOWEMPTY);
  __CPROVER_assert(verif_exc == 0, "the tokenizer constructor does not raise");
  /* expected re-join: the input without the separators the options strip */
  int first = 0, last = LEN;   /* [first, last) */
#if !SOLID
  while (first < LEN && isdelim(in_s[first])) first++;
#if !ALLOWEMPTY
  while (last > first && isdelim(in_s[last - 1])) last--;
#endif
  if (first == LEN) last = LEN;
#endif
  /* token facts */
  __CPROVER_assert(st.tokens_.n == 0 || st.splits_.n + 1 == st.tokens_.n || st.splits_.n == st.tokens_.n, "one recorded separator between consecutive tokens (plus at most one trailing)");
#if !SOLID
  for (unsigned long t = 0; t < st.tokens_.n; ++t) {
    for (unsigned long k = 0; k < st.tokens_.d[t].n; ++k) __CPROVER_assert(!isdelim(st.tokens_.d[t].d[k]), "a token contains no delimiter");
#if !ALLOWEMPTY
    __CPROVER_assert(st.tokens_.d[t].n > 0, "no empty token unless empty tokens are allowed");
#endif
  }
#endif
  Str r = StringTokenizer__unparseRemainingTokens(&st);
  __CPROVER_assert(verif_exc == 0, "unparseRemainingTokens does not raise");
  __CPROVER_assert(r.n == (unsigned long)(last - first), "re-joining tokens and recorded separators gives back the input (length)");
  for (int i = 0; i < LEN; ++i) if (i >= first && i < last) __CPROVER_assert(r.d[i - first] == in_s[i], "re-joining tokens and recorded separators gives back the input (bytes)");
  __CPROVER_assert(0, "verif_canary reachable after call"); }
'''
_gen_grammar = generate_jobs
def generate_jobs(unit, tier):
    jobs = _gen_grammar(unit, tier)
    bodies = [f['cname'] for f in FUNCS]
    lmax = 5 if tier == 'thorough' else 4
    for L in range(0, lmax + 1):
        for solid in (0, 1):
            for allow in (0, 1):
                for dl in (1, 2):
                    jobs.append(dict(id='b_tokenize_len%d_d%d_solid%d_empty%d' % (L, dl, solid, allow), kind='bounded', mode='bounded', entry='h', bodies=bodies,
                                     harness=H_TOK, unwind=L + 4, timeout=900,
                                     defs='#define LEN %d\n#define DLEN %d\n#define SOLID %d\n#define ALLOWEMPTY %d\n#define STR_BCAP %d\n#define VEC_BCAP %d\n' % (L, dl, solid, allow, L + 3, L + 3),
                                     bound='input length %d over {a,b,",",";"}, %d delimiter byte(s) over {",",";"}, solid=%d, allowEmptyTokens=%d' % (L, dl, solid, allow),
                                     doc='tokenise then re-join with the recorded separators reproduces the input; tokens contain no delimiter; no empty token unless allowed'))
    return jobs

# ---- nested tokenising never splits inside balanced brackets ------------------------------------------------------------
H_NEST = r"""
char in_s[LEN + 1]; char in_d[DLEN + 1];
static _Bool isdelim(char c) { for (int k = 0; k < DLEN; ++k) if (in_d[k] == c) return 1; return 0; }
void h(void) {
  Str s, d, op, cl; s.d = (char*)verif_new_array(STR_BCAP, 1); s.n = LEN; d.d = (char*)verif_new_array(STR_BCAP, 1); d.n = DLEN;
  op.d = (char*)verif_new_array(2, 1); op.d[0] = '('; op.d[1] = 0; op.n = 1; cl.d = (char*)verif_new_array(2, 1); cl.d[0] = ')'; cl.d[1] = 0; cl.n = 1;
  for (int i = 0; i < LEN; ++i) { in_s[i] = nondet_char(); __CPROVER_assume(in_s[i] == 'a' || in_s[i] == '(' || in_s[i] == ')' || in_s[i] == ',' || in_s[i] == ';'); s.d[i] = in_s[i]; } s.d[LEN] = 0;
  for (int i = 0; i < DLEN; ++i) { in_d[i] = nondet_char(); __CPROVER_assume(in_d[i] == ',' || in_d[i] == ';'); d.d[i] = in_d[i]; } d.d[DLEN] = 0;
  NestedStringTokenizer st; verif_exc = 0;
  NestedStringTokenizer__ctor_5(&st, &s, &op, &cl, &d, SOLID);
  /* independent reference, character by character: a delimiter is a split point exactly when the brackets before it are balanced */
  int bal = 0; _Bool split[LEN + 1]; for (int p = 0; p < LEN; ++p) { split[p] = isdelim(in_s[p]) && bal == 0; if (in_s[p] == '(') bal++; if (in_s[p] == ')') bal--; }
  __CPROVER_assert(verif_exc == 0 || verif_exc == EXC_Exception, "the nested tokenizer raises nothing but the library's exception");
  __CPROVER_assert((verif_exc != 0) == (bal != 0), "the nested tokenizer raises exactly when the string has an unclosed block");
  if (verif_exc == 0) {
    /* expected tokens: the pieces between split points (non-solid: empty pieces are dropped; solid: kept) */
    unsigned long t = 0; int start = 0;
    for (int p = 0; p <= LEN; ++p) if (p == LEN || split[p]) {
      if (SOLID || p > start) {
        __CPROVER_assert(t < st.tokens_.n && st.tokens_.d[t].n == (unsigned long)(p - start), "nested tokenising splits at every delimiter outside brackets and never inside balanced brackets (token length)");
        for (int k = 0; k < LEN; ++k) if (k >= start && k < p && t < st.tokens_.n && st.tokens_.d[t].n == (unsigned long)(p - start)) __CPROVER_assert(st.tokens_.d[t].d[k - start] == in_s[k], "nested tokenising splits at every delimiter outside brackets and never inside balanced brackets (token bytes)");
        t++; }
      start = p + 1; }
    __CPROVER_assert(t == st.tokens_.n, "no other token is produced"); }
  __CPROVER_assert(0, "verif_canary reachable after call"); }
"""
_gen_tok = generate_jobs
def generate_jobs(unit, tier):
    jobs = _gen_tok(unit, tier)
    bodies = [f['cname'] for f in FUNCS]
    lmax = 4 if tier == 'thorough' else 3
    for L in range(0, lmax + 1):
        for solid, dl in ((0, 1), (0, 2), (1, 1)):
            jobs.append(dict(id='b_nested_len%d_d%d_solid%d' % (L, dl, solid), kind='bounded', mode='bounded', entry='h', bodies=bodies,
                             harness=H_NEST, unwind=max(L, dl) + 3, timeout=2400,
                             defs='#define LEN %d\n#define DLEN %d\n#define SOLID %d\n#define STR_BCAP %d\n#define VEC_BCAP %d\n' % (L, dl, solid, max(L, dl) + 1, L + 2),
                             bound='input length %d over {a,(,),",",";"}, brackets "(" and ")", %d delimiter byte(s) over {",",";"}, solid=%d' % (L, dl, solid),
                             doc='nested tokenising against a character-level reference: split exactly at the delimiters outside brackets; Unclosed block iff unbalanced'))
    return jobs

# ---- wildcard name matching agrees with glob semantics for '*' ------------------------------------------------------------
H_GLOB = r"""
char in_p[PLEN + 1]; char in_n[NLEN + 1];
/* reference: '*' matches any (possibly empty) run of characters, every other character matches itself.  m[i][j]: pattern[i..) matches name[j..) */
static _Bool glob(void) { _Bool m[PLEN + 1][NLEN + 1];
  for (int j = NLEN; j >= 0; --j) m[PLEN][j] = (j == NLEN);
  for (int i = PLEN - 1; i >= 0; --i) for (int j = NLEN; j >= 0; --j) {
    if (in_p[i] == '*') m[i][j] = m[i + 1][j] || (j < NLEN && m[i][j + 1]);
    else m[i][j] = (j < NLEN && in_p[i] == in_n[j] && m[i + 1][j + 1]); }
  return m[0][0]; }
void h(void) {
  Str p, n; p.d = (char*)verif_new_array(STR_BCAP, 1); p.n = PLEN; n.d = (char*)verif_new_array(STR_BCAP, 1); n.n = NLEN;
  for (int i = 0; i < PLEN; ++i) { in_p[i] = nondet_char(); __CPROVER_assume(in_p[i] == 'a' || in_p[i] == 'b' || in_p[i] == '*'); p.d[i] = in_p[i]; } p.d[PLEN] = 0;
  for (int i = 0; i < NLEN; ++i) { in_n[i] = nondet_char(); __CPROVER_assume(in_n[i] == 'a' || in_n[i] == 'b'); n.d[i] = in_n[i]; } n.d[NLEN] = 0;
  Vec_Str names; Vec_Str__ctor_0(&names); Vec_Str__push_back(&names, &n); verif_exc = 0;
  Vec_Str r = ApplicationTools__matchingParameters_v(&p, &names);
  __CPROVER_assert(verif_exc == 0, "wildcard matching does not raise");
  __CPROVER_assert(r.n == (glob() ? 1u : 0u), "wildcard name matching agrees with glob semantics for '*'");
  if (r.n == 1) { __CPROVER_assert(r.d[0].n == NLEN, "the matching name is returned unchanged"); for (int i = 0; i < NLEN; ++i) __CPROVER_assert(r.d[0].d[i] == in_n[i], "the matching name is returned unchanged"); }
  __CPROVER_assert(0, "verif_canary reachable after call"); }
"""
_gen_nest = generate_jobs
def generate_jobs(unit, tier):
    jobs = _gen_nest(unit, tier)
    bodies = [f['cname'] for f in FUNCS]
    lmax = 6 if tier == 'thorough' else 5
    for PL in range(0, lmax + 1):
        for NL in range(0, lmax + 1):
            cap = max(PL, NL, 1) + 1
            jobs.append(dict(id='b_glob_p%d_n%d' % (PL, NL), kind='bounded', mode='bounded', entry='h', bodies=bodies, harness=H_GLOB, unwind=cap + 2, timeout=1200,
                             defs='#define PLEN %d\n#define NLEN %d\n#define STR_BCAP %d\n#define VEC_BCAP %d\n' % (PL, NL, cap, cap + 1),
                             bound='pattern of length %d over {a,b,*}, name of length %d over {a,b}' % (PL, NL),
                             doc="ApplicationTools::matchingParameters(pattern, names) against a dynamic-programming glob matcher"))
    return jobs
