"""C05 - LU solve, inverse and determinant: structural clauses (DESIGN.md section 4, C05)."""
PROPERTY = 'C05'
LEVEL = 'proof'

INST = r'''
#include <Bpp/Numeric/Matrix/MatrixTools.h>
#include <Bpp/Numeric/Matrix/LUDecomposition.h>
using namespace bpp;
double verif_inst(Matrix<double>& A, Matrix<double>& B, Matrix<double>& X)
{
  LUDecomposition<double> lu(A);
  lu.getL(); lu.getU(); lu.getPivot();
  double d = lu.det() + lu.solve(B, X);
  return d + MatrixTools::inv(A, X) + MatrixTools::det(A) + NumTools::abs<double>(d);
}
'''
TUS = {'lu': dict(src=INST, filter='bpp::LUDecomposition'),
       'mt': dict(src=INST, filter='bpp::MatrixTools'),
       'nt': dict(src=INST, filter='bpp::NumTools')}

LUD = 'bpp::LUDecomposition<double>'
MD = 'bpp::Matrix<double>'
CFG = dict(
    types={MD: 'MatD', 'bpp::RowMatrix<double>': 'MatD', 'std::vector<unsigned long>': 'PivVec'},
    plain=set(),
    rename={(LUD, 'solve', 2): 'LU__solve', (LUD, 'permuteCopy', 5): 'LU__permuteCopy'},
    free={('swap', 2): 'verif_swap_ulong', ('abs', 'double (double)'): 'NumTools__abs', ('SMALL',): 'NumConstants__SMALL',
          ('permuteCopy', 5): 'LU__permuteCopy', ('isSquare',): 'MatrixTools__isSquare', ('getId',): 'MatrixTools__getId'},
    throws=set(),
    # the elimination arithmetic is abstracted: * and / on doubles are uninterpreted functions, so every fact decided here holds for
    # any (functional) arithmetic, IEEE included; + - and comparisons stay bit-precise
    uf_ops={'*': 'verif_uf_mul', '/': 'verif_uf_div'},
)
STRUCTS = [LUD]
PRE_STRUCTS = r'''
#include "vec.h"
#include "mat.h"
#include "libm.h"
MAT_DECL(double, MatD)
#ifdef VERIF_MODE_BOUNDED
VEC_DECL(unsigned long, PivVec)
#else
/* std::vector<size_t> holding row indices: content-free model.  Reads return a cell whose value is below the ghost
   bound (assumed type invariant "every pivot index is a row index"; the bounded runs check that the real code
   establishes it: piv is a permutation of 0..m-1). */
typedef struct PivVec { unsigned long n; unsigned long bound; } PivVec;
static inline unsigned long PivVec__size(const PivVec *v) { return v->n; }
unsigned long *PivVec__op_index(const PivVec *v, unsigned long i)
  __CPROVER_requires(i < v->n)
  __CPROVER_ensures(__CPROVER_is_fresh(__CPROVER_return_value, sizeof(unsigned long)) && *__CPROVER_return_value < v->bound)
  __CPROVER_assigns();
static inline void PivVec__ctor_1(PivVec *v, unsigned long n) { v->n = n; v->bound = n; }
static inline void PivVec__ctor_copy(PivVec *v, const PivVec *o) { *v = *o; }
static inline PivVec PivVec__make_copy(const PivVec *o) { return *o; }
#endif
static inline void MatD__ctor_1(MatD *m, const MatD *o) { *m = *o; }   /* RowMatrix(const Matrix&) */
'''
PRELUDE = r'''
/* std::swap on two pivot entries (size_t): not called by the pinned tree; modelled so that a change which introduces it is decided instead of refused */
static inline void verif_swap_ulong(unsigned long *a, unsigned long *b) { unsigned long t = *a; *a = *b; *b = t; }
static inline double NumConstants__SMALL(void) { return 1e-6; }
#define LU_SHAPES(s) ((s)->LU.rows == (s)->m && (s)->LU.cols == (s)->n && (s)->L_.rows == (s)->m && (s)->L_.cols == (s)->n && (s)->U_.rows == (s)->n && (s)->U_.cols == (s)->n)
#ifndef VERIF_MODE_BOUNDED
#define LU_WF(s) (LU_SHAPES(s) && (s)->piv.n == (s)->m && (s)->piv.bound == (s)->m && ((s)->pivsign == 1 || (s)->pivsign == -1))
#endif
'''
STUB_CONTRACTS = {'MatD__op_call', 'MatD__resize', 'PivVec__op_index'}

def L(var, bound, assigns=(), inv=(), dec=None):
    a = ', '.join([var] + list(assigns))
    return dict(assigns=a, invariant=['%s <= %s' % (var, bound)] + list(inv), decreases=dec or '%s - %s' % (bound, var))

LUF = '__CPROVER_is_fresh(self, sizeof(LUDecomposition_double))'
FUNCS = [
    dict(cname='NumTools__abs', qname='bpp::NumTools::abs', targs=['double'],
         requires=['!VERIF_ISNAN(a)'], ensures=['__CPROVER_return_value == (a < 0 ? -a : a)', '__CPROVER_return_value >= 0'], assigns=[]),
    dict(cname='LUDecomposition_double__ctor_1', qname=LUD + '::LUDecomposition', sig='(const Matrix<double> &)',
         # JAMA's domain: at least as many rows as columns (C05 quantifies over square matrices)
         requires=[LUF, 'MAT_FRESH(A)', 'A->rows >= A->cols'],
         ensures=['verif_exc == 0', 'self->m == A->rows && self->n == A->cols', 'LU_WF(self)'],
         assigns=['*self'],
         inline=['NumTools__abs'],
         loops={1: L('i', 'self->m'),
                2: L('k', 'self->n', assigns=['self->pivsign'], inv=['self->pivsign == 1 || self->pivsign == -1']),
                3: L('i', 'self->m', assigns=['p'], inv=['i >= k + 1', 'p < self->m', 'p >= k', 'k < self->n'], dec='self->m - i'),
                4: L('j', 'self->n'),
                5: L('i', 'self->m', inv=['i >= k + 1'], dec='self->m - i'),
                6: L('j', 'self->n', inv=['j >= k + 1'], dec='self->n - j')}),
    dict(cname='LUDecomposition_double__getL', qname=LUD + '::getL', requires=[LUF, 'LU_WF(self)'],
         ensures=['verif_exc == 0', '__CPROVER_return_value == &self->L_', 'LU_WF(self)'], assigns=[],
         loops={1: L('i', 'self->m'), 2: L('j', 'self->n')}),
    dict(cname='LUDecomposition_double__getU', qname=LUD + '::getU', requires=[LUF, 'LU_WF(self)', 'self->m == self->n'],
         ensures=['verif_exc == 0', '__CPROVER_return_value == &self->U_', 'LU_WF(self)'], assigns=[],
         loops={1: L('i', 'self->n'), 2: L('j', 'self->n')}),
    dict(cname='LUDecomposition_double__det', qname=LUD + '::det', requires=[LUF, 'LU_WF(self)'],
         ensures=['verif_exc == 0', 'self->m != self->n ==> __CPROVER_return_value == 0.0'], assigns=[],
         loops={1: L('j', 'self->n', assigns=['d'], inv=['self->m == self->n'])}),
    dict(cname='LU__permuteCopy', qname=LUD + '::permuteCopy', sig='(const Matrix<double> &, const std::vector<size_t> &, size_t, size_t, Matrix<double> &)',
         requires=['MAT_FRESH(A)', 'MAT_FRESH(X)', '__CPROVER_is_fresh(piv, sizeof(PivVec))', 'piv->bound <= A->rows', 'j0 <= j1 && j1 < A->cols'],
         ensures=['verif_exc == 0', 'X->rows == piv->n && X->cols == j1 - j0 + 1'], assigns=['X->rows', 'X->cols'],
         loops={1: L('i', 'piv_length'), 2: L('j', 'j1 + 1', inv=['j >= j0'], dec='j1 + 1 - j')}),
    dict(cname='LU__solve', qname=LUD + '::solve', sig='(const Matrix<double> &, Matrix<double> &) const',
         # quantifier of C05: square systems n >= 1, right-hand sides with at least one column
         requires=[LUF, 'LU_WF(self)', 'self->m == self->n && self->n >= 1', 'MAT_FRESH(B)', 'MAT_FRESH(X)', 'B->cols >= 1'],
         ensures=['verif_exc == 0 || verif_exc == EXC_BadIntegerException || verif_exc == EXC_ZeroDivisionException',
                  # a right-hand side of the wrong height is refused, and nothing is written
                  '(verif_exc == EXC_BadIntegerException) == (B->rows != self->m)',
                  'verif_exc != 0 ==> (X->rows == __CPROVER_old(X->rows) && X->cols == __CPROVER_old(X->cols))',
                  'verif_exc == 0 ==> (X->rows == self->n && X->cols == B->cols)'],
         assigns=['X->rows', 'X->cols', 'verif_exc'],
         inline=['NumTools__abs'],
         loops={1: L('i', 'self->m', assigns=['minD'], inv=['i >= 1'], dec='self->m - i'),
                2: L('k', 'self->n', inv=['X->rows == self->n && X->cols == nx']),
                3: L('i', 'self->n', inv=['i >= k + 1', 'k < self->n'], dec='self->n - i'),
                4: L('j', 'nx'),
                5: dict(assigns='k', invariant=['k <= self->n', 'k >= 1', 'X->rows == self->n && X->cols == nx'], decreases='k'),
                6: L('j', 'nx'), 7: L('i', 'k'), 8: L('j', 'nx')}),
]

FUNCS += [
    dict(cname='MatrixTools__isSquare', qname='bpp::MatrixTools::isSquare', targs=['bpp::Matrix<double>'], requires=['MAT_FRESH(A)'],
         ensures=['__CPROVER_return_value == (A->rows == A->cols)'], assigns=[]),
    dict(cname='MatrixTools__getId', qname='bpp::MatrixTools::getId', targs=['bpp::RowMatrix<double>'], requires=['MAT_FRESH(O)'],
         ensures=['verif_exc == 0', 'O->rows == n && O->cols == n'], assigns=['O->rows', 'O->cols'],
         loops={1: L('i', 'n'), 2: L('j', 'n')}),
    dict(cname='MatrixTools__inv', qname='bpp::MatrixTools::inv', targs=['double'],
         requires=['MAT_FRESH(A)', 'MAT_FRESH(O)', 'A->rows >= 1'],
         ensures=['verif_exc == 0 || verif_exc == EXC_DimensionException || verif_exc == EXC_ZeroDivisionException',
                  # a non-square matrix is refused; a singular one gives a zero-division error, never a silent answer of the wrong shape
                  '(verif_exc == EXC_DimensionException) == (A->rows != A->cols)',
                  'verif_exc == 0 ==> (O->rows == A->rows && O->cols == A->cols)',
                  'verif_exc != 0 ==> (O->rows == __CPROVER_old(O->rows) && O->cols == __CPROVER_old(O->cols))'],
         assigns=['O->rows', 'O->cols', 'verif_exc']),
    dict(cname='MatrixTools__det', qname='bpp::MatrixTools::det', targs=['double'],
         requires=['MAT_FRESH(A)'],
         ensures=['verif_exc == 0 || verif_exc == EXC_DimensionException', '(verif_exc == EXC_DimensionException) == (A->rows != A->cols)'],
         assigns=['verif_exc']),
]

LEMMAS = []
TRUSTED = ['abstract Matrix interface model (fresh cell per access, shape only)',
           'pivot vector modelled without contents in the proofs: every read returns a value below the number of rows (assumed here, checked for n <= 3 by the bounded runs: piv is a permutation)']
ASSUMPTIONS = ['solve/inv: square system with n >= 1 and a right-hand side with at least one column (quantifier of C05)']
NOT_DECIDED = ['P.A = L.U, residual bounds of solve/inv, determinant identities: floating-point numerical analysis, no contract available',
               'solve(vector) is never instantiable (calls b.dim1())']

# ---- bounded runs: n <= 3 concrete, entries symbolic doubles ---------------------------------------------------------
BH = r'''
#define FOR(i, n) for (unsigned long i = 0; i < (unsigned long)(n); ++i)
static double nd_fin(void) { double v = nondet_double(); __CPROVER_assume(v >= -1e6 && v <= 1e6); return v; }
static void mk(MatD *m, unsigned long r, unsigned long c) { m->rows = r; m->cols = c; FOR(i, MAT_B) FOR(j, MAT_B) MDP(m, i, j) = (i < r && j < c) ? nd_fin() : nondet_double(); }
#define SAMED(a, b) ((a) == (b) || ((a) != (a) && (b) != (b)))
'''
H_FACT = BH + r'''
void h(void) { MatD A; mk(&A, N, N); MatD A0 = A; verif_exc = 0;
  LUDecomposition_double lu; LUDecomposition_double__ctor_1(&lu, &A);
  __CPROVER_assert(verif_exc == 0, "factorisation does not raise");
  __CPROVER_assert(lu.m == N && lu.n == N && lu.LU.rows == N && lu.LU.cols == N, "LU has the shape of A");
  FOR(i, MAT_B) FOR(j, MAT_B) __CPROVER_assert(SAMED(MD(A, i, j), MD(A0, i, j)), "A is not modified");
  /* P is a row permutation ... */
  __CPROVER_assert(lu.piv.n == N, "pivot vector has one entry per row");
  FOR(i, N) { __CPROVER_assert(lu.piv.d[i] < N, "pivot entries are row indices"); FOR(j, N) if (i < j) __CPROVER_assert(lu.piv.d[i] != lu.piv.d[j], "pivot vector is a permutation (no repeated row)"); }
  /* ... whose sign is the one used by the determinant */
  int inv = 0; FOR(i, N) FOR(j, N) if (i < j && lu.piv.d[i] > lu.piv.d[j]) inv++;
  __CPROVER_assert(lu.pivsign == ((inv % 2) ? -1 : 1), "pivsign is the sign of the pivot permutation");
  const MatD *Lm = LUDecomposition_double__getL(&lu);
  FOR(i, N) FOR(j, N) __CPROVER_assert(i < j ? MDP(Lm, i, j) == 0.0 : (i == j ? MDP(Lm, i, j) == 1.0 : SAMED(MDP(Lm, i, j), MD(lu.LU, i, j))), "L is unit lower triangular and carries the multipliers");
  const MatD *Um = LUDecomposition_double__getU(&lu);
  FOR(i, N) FOR(j, N) __CPROVER_assert(i <= j ? SAMED(MDP(Um, i, j), MD(lu.LU, i, j)) : MDP(Um, i, j) == 0.0, "U is upper triangular");
  /* partial pivoting: every multiplier has magnitude at most 1 when the pivot is non-zero (|L(i,j)| <= 1) is an arithmetic fact: not checked */
  double dv = LUDecomposition_double__det(&lu);
  double s = (double)lu.pivsign; FOR(j, N) s = verif_uf_mul(s, MD(lu.LU, j, j));
  __CPROVER_assert(SAMED(dv, s), "det is pivsign times the product of the pivots");
  __CPROVER_assert(0, "verif_canary reachable after call"); }
'''
H_SOLVE = BH + r'''
void h(void) { MatD A; mk(&A, N, N); verif_exc = 0;
  LUDecomposition_double lu; LUDecomposition_double__ctor_1(&lu, &A);
  MatD B, X; mk(&B, NB, NX); mk(&X, MAT_B, MAT_B); MatD X0 = X, B0 = B;
  double mn = MD(lu.LU, 0, 0) < 0 ? -MD(lu.LU, 0, 0) : MD(lu.LU, 0, 0);
  for (unsigned long i = 1; i < N; ++i) { double c = MD(lu.LU, i, i) < 0 ? -MD(lu.LU, i, i) : MD(lu.LU, i, i); if (c < mn) mn = c; }
  double r = LU__solve(&lu, &B, &X);
  if (NB != N) { __CPROVER_assert(verif_exc == EXC_BadIntegerException, "a right-hand side of the wrong height is refused");
    FOR(i, MAT_B) FOR(j, MAT_B) __CPROVER_assert(SAMED(MD(X, i, j), MD(X0, i, j)) && X.rows == X0.rows && X.cols == X0.cols, "refused call writes nothing"); }
  else {
    /* a smallest pivot below the documented threshold gives a zero-division error, never a silently wrong answer */
    __CPROVER_assert((verif_exc == EXC_ZeroDivisionException) == (mn < 1e-6), "ZeroDivisionException iff the smallest pivot magnitude is below 1e-6");
    __CPROVER_assert(verif_exc == 0 || verif_exc == EXC_ZeroDivisionException, "no other exception");
    if (verif_exc == 0) { __CPROVER_assert(SAMED(r, mn), "the returned indicator is the smallest pivot magnitude"); __CPROVER_assert(X.rows == N && X.cols == NX, "X has the shape n x nx"); }
    else FOR(i, MAT_B) FOR(j, MAT_B) __CPROVER_assert(SAMED(MD(X, i, j), MD(X0, i, j)) && X.rows == X0.rows && X.cols == X0.cols, "singular case writes nothing");
  }
  FOR(i, MAT_B) FOR(j, MAT_B) __CPROVER_assert(SAMED(MD(B, i, j), MD(B0, i, j)), "B is not modified");
  __CPROVER_assert(0, "verif_canary reachable after call"); }
'''
H_PERM = BH + r'''
void h(void) { MatD B, Y; mk(&B, N, NX); mk(&Y, MAT_B, MAT_B); PivVec pv; PivVec__ctor_1(&pv, N); FOR(i, N) { pv.d[i] = nondet_ulong(); __CPROVER_assume(pv.d[i] < N); }
  verif_exc = 0; LU__permuteCopy(&B, &pv, 0, NX - 1, &Y);
  __CPROVER_assert(Y.rows == N && Y.cols == NX, "permuteCopy: shape");
  FOR(i, N) FOR(j, NX) __CPROVER_assert(SAMED(MD(Y, i, j), MD(B, pv.d[i], j)), "permuteCopy copies row piv[i] of the right-hand side into row i");
  __CPROVER_assert(0, "verif_canary reachable after call"); }
'''
def generate_jobs(unit, tier):
    jobs = []
    bodies = [f['cname'] for f in FUNCS if f['cname'] not in ('MatrixTools__inv', 'MatrixTools__det', 'MatrixTools__isSquare', 'MatrixTools__getId')]
    nmax = 5 if tier == 'thorough' else 3
    mb = nmax + 1
    def J(jid, text, defs, unwind=None, timeout=600, doc=''):
        unwind = unwind or (mb + 3)
        jobs.append(dict(id=jid, kind='bounded', mode='bounded', entry='h', bodies=bodies, harness=text, unwind=unwind, timeout=timeout,
                         defs='#define MAT_B %d\n#define VEC_BCAP %d\n' % (mb + 1, mb + 1) + defs, bound=defs.replace('\n', ' ') + '; entries symbolic doubles in [-1e6, 1e6]; unwinding %d' % unwind, doc=doc))
    for n in range(1, nmax + 1):
        J('b_factor_n%d' % n, H_FACT, '#define N %d\n' % n, doc='pivot vector is a permutation with sign pivsign; L unit lower / U upper triangular; det = pivsign * prod pivots')
        for nx in (1, 2):
            J('b_permuteCopy_n%d_x%d' % (n, nx), H_PERM, '#define N %d\n#define NX %d\n' % (n, nx), doc='permuteCopy copies A(piv[i], j)')
            for nb in sorted({n, n + 1, max(n - 1, 0)}):
                if nb == 0: continue
                J('b_solve_n%d_b%d_x%d' % (n, nb, nx), H_SOLVE, '#define N %d\n#define NB %d\n#define NX %d\n' % (n, nb, nx),
                  doc='solve: refusal of a wrong height, singularity guard iff min pivot < 1e-6, indicator = min pivot, shape')
    return jobs
