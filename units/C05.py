"""C05 - LU solve, inverse and determinant: structural clauses (DESIGN.md section 4, C05)."""
PROPERTY = 'C05'
LEVEL = 'proof'

INST = r'''
#include <Bpp/Numeric/Matrix/MatrixTools.h>
#include <Bpp/Numeric/Matrix/LUDecomposition.h>
using namespace bpp;
double verif_inst(Matrix<double>& A, Matrix<double>& B, Matrix<double>& X)
{
  LUDecomposition<double> lu(A);
  lu.getL(); lu.getU(); lu.getPivot();
  double d = lu.det() + lu.solve(B, X);
  return d + MatrixTools::inv(A, X) + MatrixTools::det(A) + NumTools::abs<double>(d);
}
'''
TUS = {'lu': dict(src=INST, filter='bpp::LUDecomposition'),
       'mt': dict(src=INST, filter='bpp::MatrixTools'),
       'nt': dict(src=INST, filter='bpp::NumTools')}

LUD = 'bpp::LUDecomposition<double>'
MD = 'bpp::Matrix<double>'
CFG = dict(
    types={MD: 'MatD', 'bpp::RowMatrix<double>': 'MatD', 'std::vector<unsigned long>': 'PivVec'},
    plain=set(),
    rename={(LUD, 'solve', 2): 'LU__solve', (LUD, 'permuteCopy', 5): 'LU__permuteCopy'},
    free={('abs', 'double (double)'): 'NumTools__abs', ('SMALL',): 'NumConstants__SMALL',
          ('permuteCopy', 5): 'LU__permuteCopy', ('isSquare',): 'MatrixTools__isSquare', ('getId',): 'MatrixTools__getId'},
    throws=set(),
)
STRUCTS = [LUD]
PRE_STRUCTS = r'''
#include "vec.h"
#include "mat.h"
#include "libm.h"
MAT_DECL(double, MatD)
#ifdef VERIF_MODE_BOUNDED
VEC_DECL(unsigned long, PivVec)
#else
/* std::vector<size_t> holding row indices: content-free model.  Reads return a cell whose value is below the ghost
   bound (assumed type invariant "every pivot index is a row index"; the bounded runs check that the real code
   establishes it: piv is a permutation of 0..m-1). */
typedef struct PivVec { unsigned long n; unsigned long bound; } PivVec;
static inline unsigned long PivVec__size(const PivVec *v) { return v->n; }
unsigned long *PivVec__op_index(const PivVec *v, unsigned long i)
  __CPROVER_requires(i < v->n)
  __CPROVER_ensures(__CPROVER_is_fresh(__CPROVER_return_value, sizeof(unsigned long)) && *__CPROVER_return_value < v->bound)
  __CPROVER_assigns();
static inline void PivVec__ctor_1(PivVec *v, unsigned long n) { v->n = n; v->bound = n; }
static inline void PivVec__ctor_copy(PivVec *v, const PivVec *o) { *v = *o; }
static inline PivVec PivVec__make_copy(const PivVec *o) { return *o; }
#endif
static inline void MatD__ctor_1(MatD *m, const MatD *o) { *m = *o; }   /* RowMatrix(const Matrix&) */
'''
PRELUDE = r'''
static inline double NumConstants__SMALL(void) { return 1e-6; }
#define LU_SHAPES(s) ((s)->LU.rows == (s)->m && (s)->LU.cols == (s)->n && (s)->L_.rows == (s)->m && (s)->L_.cols == (s)->n && (s)->U_.rows == (s)->n && (s)->U_.cols == (s)->n)
#ifndef VERIF_MODE_BOUNDED
#define LU_WF(s) (LU_SHAPES(s) && (s)->piv.n == (s)->m && (s)->piv.bound == (s)->m && ((s)->pivsign == 1 || (s)->pivsign == -1))
#endif
'''
STUB_CONTRACTS = {'MatD__op_call', 'MatD__resize', 'PivVec__op_index'}

def L(var, bound, assigns=(), inv=(), dec=None):
    a = ', '.join([var] + list(assigns))
    return dict(assigns=a, invariant=['%s <= %s' % (var, bound)] + list(inv), decreases=dec or '%s - %s' % (bound, var))

LUF = '__CPROVER_is_fresh(self, sizeof(LUDecomposition_double))'
FUNCS = [
    dict(cname='NumTools__abs', qname='bpp::NumTools::abs', targs=['double'],
         requires=['!VERIF_ISNAN(a)'], ensures=['__CPROVER_return_value == (a < 0 ? -a : a)', '__CPROVER_return_value >= 0'], assigns=[]),
    dict(cname='LUDecomposition_double__ctor_1', qname=LUD + '::LUDecomposition', sig='(const Matrix<double> &)',
         # JAMA's domain: at least as many rows as columns (C05 quantifies over square matrices)
         requires=[LUF, 'MAT_FRESH(A)', 'A->rows >= A->cols'],
         ensures=['verif_exc == 0', 'self->m == A->rows && self->n == A->cols', 'LU_WF(self)'],
         assigns=['*self'],
         inline=['NumTools__abs'],
         loops={1: L('i', 'self->m'),
                2: L('k', 'self->n', assigns=['self->pivsign'], inv=['self->pivsign == 1 || self->pivsign == -1']),
                3: L('i', 'self->m', assigns=['p'], inv=['i >= k + 1', 'p < self->m', 'p >= k', 'k < self->n'], dec='self->m - i'),
                4: L('j', 'self->n'),
                5: L('i', 'self->m', inv=['i >= k + 1'], dec='self->m - i'),
                6: L('j', 'self->n', inv=['j >= k + 1'], dec='self->n - j')}),
    dict(cname='LUDecomposition_double__getL', qname=LUD + '::getL', requires=[LUF, 'LU_WF(self)'],
         ensures=['verif_exc == 0', '__CPROVER_return_value == &self->L_', 'LU_WF(self)'], assigns=[],
         loops={1: L('i', 'self->m'), 2: L('j', 'self->n')}),
    dict(cname='LUDecomposition_double__getU', qname=LUD + '::getU', requires=[LUF, 'LU_WF(self)', 'self->m == self->n'],
         ensures=['verif_exc == 0', '__CPROVER_return_value == &self->U_', 'LU_WF(self)'], assigns=[],
         loops={1: L('i', 'self->n'), 2: L('j', 'self->n')}),
    dict(cname='LUDecomposition_double__det', qname=LUD + '::det', requires=[LUF, 'LU_WF(self)'],
         ensures=['verif_exc == 0', 'self->m != self->n ==> __CPROVER_return_value == 0.0'], assigns=[],
         loops={1: L('j', 'self->n', assigns=['d'], inv=['self->m == self->n'])}),
    dict(cname='LU__permuteCopy', qname=LUD + '::permuteCopy', sig='(const Matrix<double> &, const std::vector<size_t> &, size_t, size_t, Matrix<double> &)',
         requires=['MAT_FRESH(A)', 'MAT_FRESH(X)', '__CPROVER_is_fresh(piv, sizeof(PivVec))', 'piv->bound <= A->rows', 'j0 <= j1 && j1 < A->cols'],
         ensures=['verif_exc == 0', 'X->rows == piv->n && X->cols == j1 - j0 + 1'], assigns=['X->rows', 'X->cols'],
         loops={1: L('i', 'piv_length'), 2: L('j', 'j1 + 1', inv=['j >= j0'], dec='j1 + 1 - j')}),
    dict(cname='LU__solve', qname=LUD + '::solve', sig='(const Matrix<double> &, Matrix<double> &) const',
         # quantifier of C05: square systems n >= 1, right-hand sides with at least one column
         requires=[LUF, 'LU_WF(self)', 'self->m == self->n && self->n >= 1', 'MAT_FRESH(B)', 'MAT_FRESH(X)', 'B->cols >= 1'],
         ensures=['verif_exc == 0 || verif_exc == EXC_BadIntegerException || verif_exc == EXC_ZeroDivisionException',
                  # a right-hand side of the wrong height is refused, and nothing is written
                  '(verif_exc == EXC_BadIntegerException) == (B->rows != self->m)',
                  'verif_exc != 0 ==> (X->rows == __CPROVER_old(X->rows) && X->cols == __CPROVER_old(X->cols))',
                  'verif_exc == 0 ==> (X->rows == self->n && X->cols == B->cols)'],
         assigns=['X->rows', 'X->cols', 'verif_exc'],
         inline=['NumTools__abs'],
         loops={1: L('i', 'self->m', assigns=['minD'], inv=['i >= 1'], dec='self->m - i'),
                2: L('k', 'self->n', inv=['X->rows == self->n && X->cols == nx']),
                3: L('i', 'self->n', inv=['i >= k + 1', 'k < self->n'], dec='self->n - i'),
                4: L('j', 'nx'),
                5: dict(assigns='k', invariant=['k <= self->n', 'k >= 1 || k == 0', 'X->rows == self->n && X->cols == nx'], decreases='k'),
                6: L('j', 'nx'), 7: L('i', 'k'), 8: L('j', 'nx')}),
]

LEMMAS = []
TRUSTED = ['abstract Matrix interface model (fresh cell per access, shape only)',
           'pivot vector modelled without contents in the proofs: every read returns a value below the number of rows (assumed here, checked for n <= 3 by the bounded runs: piv is a permutation)']
ASSUMPTIONS = ['solve/inv: square system with n >= 1 and a right-hand side with at least one column (quantifier of C05)']
NOT_DECIDED = ['P.A = L.U, residual bounds of solve/inv, determinant identities: floating-point numerical analysis, no contract available',
               'solve(vector) is never instantiable (calls b.dim1())']
