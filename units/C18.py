"""C18 - random draws: parameter conventions and structural clauses of sampling (DESIGN.md section 4, C18)."""
PROPERTY = 'C18'
LEVEL = 'proof'

INST = r'''
#include <Bpp/Numeric/Random/RandomTools.h>
#include <Bpp/Numeric/Prob/GaussianDiscreteDistribution.h>
using namespace bpp;
double verif_inst(std::vector<int>& v, const std::vector<int>& cv, std::vector<int>& out, std::vector<double>& w, size_t n)
{
  double s = RandomTools::randGaussian(0., 1.) + RandomTools::randGamma(1.) + RandomTools::randGamma(1., 1.) + RandomTools::randExponential(1.);
  s += RandomTools::pickOne(v, true) + RandomTools::pickOne(cv);
  { const std::vector<double>& cw = w; s += RandomTools::pickOne(v, w, false) + RandomTools::pickOne(cv, cw); }
  RandomTools::getSample(cv, out, false);
  s += (double)RandomTools::pickFromCumSum(w) + (double)RandomTools::giveIntRandomNumberBetweenZeroAndEntry<size_t>(n) + RandomTools::giveRandomNumberBetweenZeroAndEntry(1.);
  return s;
}
'''
TUS = {'rt': dict(src=INST, filter='bpp::RandomTools'),
       'rtc': dict(src='#include "/repo/src/Bpp/Numeric/Random/RandomTools.cpp"\n', filter='bpp::RandomTools', flags=['-I/repo/src/Bpp/Numeric/Random', '-I/repo/src']),
       'gd': dict(src=INST, filter='bpp::GaussianDiscreteDistribution'),
       'ctg': dict(src='#include "/repo/src/Bpp/Numeric/Random/ContingencyTableGenerator.cpp"\n', filter='bpp::ContingencyTableGenerator', flags=['-I/repo/src/Bpp/Numeric/Random', '-I/repo/src'])}
VI = 'std::vector<int>'
GD = 'bpp::GaussianDiscreteDistribution'
CTG = 'bpp::ContingencyTableGenerator'
CFG = dict(
    types={'std::normal_distribution<double>': 'Dist', 'std::gamma_distribution<double>': 'Dist', 'std::exponential_distribution<double>': 'Dist',
           'std::uniform_real_distribution<double>': 'Dist', 'std::uniform_int_distribution<unsigned long>': 'DistU',
           'std::mersenne_twister_engine<unsigned long, 32, 624, 397, 31, 2567483615, 11, 4294967295, 7, 2636928640, 15, 4022730752, 18, 1812433253>': 'Rng',
           'std::mt19937': 'Rng', 'std::vector<unsigned long>': 'IdxVec', 'vector<size_t>': 'IdxVec', 'bpp::RowMatrix<unsigned long>': 'MatU', 'RowMatrix<size_t>': 'MatU', 'bpp::RowMatrix<size_t>': 'MatU', 'RowMatrix<unsigned long>': 'MatU', 'vector<unsigned long>': 'IdxVec', 'std::vector<size_t>': 'IdxVec'},
    plain=set(),
    rename={('ctor', 'std::normal_distribution<double>', 2): 'Dist__normal', ('ctor', 'std::gamma_distribution<double>', 2): 'Dist__gamma',
            ('ctor', 'std::exponential_distribution<double>', 1): 'Dist__exponential', ('ctor', 'std::uniform_real_distribution<double>', 2): 'Dist__uniform',
            ('ctor', 'std::uniform_int_distribution<unsigned long>', 2): 'DistU__uniform'},
    free={('exp', 1): 'verif_expl', ('log', 1): 'verif_log', ('cumSum', 1): 'verif_cumsum', ('sum', 1): [('unsigned long (const std::vector<unsigned long> &)', 'verif_usum'), ('double (const std::vector<double> &)', 'verif_vsum')], ('sqrt', 1): 'verif_sqrt', ('iota', 3): 'verif_iota', ('shuffle', 3): 'verif_shuffle',
          ('giveRandomNumberBetweenZeroAndEntry', 1): 'RandomTools__giveRandomNumberBetweenZeroAndEntry',
          ('giveIntRandomNumberBetweenZeroAndEntry', 1): 'RandomTools__giveIntRandom',
          ('randGaussian', 2): 'RandomTools__randGaussian',
          ('pickOne',): [('int (const std::vector<int> &)', 'RandomTools__pickOne_c')]},
    consts={'DEFAULT_GENERATOR': 'verif_rng'},
    throws=set(),
    struct_fields={GD: ['mu_', 'sigma_']},
    type_aliases={'long double': 'double'},
    # double * and / are uninterpreted (structural equality of the parameter expressions is what the convention clauses need)
    uf_ops={'*': 'verif_uf_mul', '/': 'verif_uf_div'},
)
for _k in list(CFG['types']):
    if _k.endswith('<double>'):
        CFG['types'][_k[:-len('<double>')] + '<>'] = CFG['types'][_k]
for _k in list(CFG['rename']):
    if _k[0] == 'ctor' and _k[1].endswith('<double>'):
        CFG['rename'][('ctor', _k[1][:-len('<double>')] + '<>') + tuple(_k[2:])] = CFG['rename'][_k]
STRUCTS = [GD, CTG]
PRE_STRUCTS = r'''
#include "vec.h"
#include "libm.h"
VEC_DECL(int, Vec_int)
VEC_DECL(double, Vec_double)
#include "mat.h"
MAT_DECL(unsigned long, MatU)
#ifdef VERIF_MODE_BOUNDED
VEC_DECL(unsigned long, IdxVec)
#else
/* std::vector<size_t> filled by std::iota(0..) and permuted by std::shuffle: content-free model whose reads return a value
   below the ghost bound set by iota (assumed type invariant "a shuffled 0..n-1 holds indices below n"; checked by the bounded runs) */
typedef struct IdxVec { unsigned long n; unsigned long bound; } IdxVec;
static inline unsigned long IdxVec__size(const IdxVec *v) { return v->n; }
unsigned long *IdxVec__op_index(const IdxVec *v, unsigned long i)
  __CPROVER_requires(i < v->n)
  __CPROVER_ensures(__CPROVER_is_fresh(__CPROVER_return_value, sizeof(unsigned long)) && *__CPROVER_return_value < v->bound)
  __CPROVER_assigns();
static inline void IdxVec__ctor_1(IdxVec *v, unsigned long n) { v->n = n; v->bound = n; }
static inline IdxVec *IdxVec__begin(IdxVec *v) { return v; }
static inline IdxVec *IdxVec__end(IdxVec *v) { return v; }
#endif
typedef struct Rng { int dummy; } Rng;
Rng verif_rng;
/* std::*_distribution: the constructor records the family and its parameters in ghost state (the law itself is libstdc++'s and is assumed) */
enum { DIST_none, DIST_normal, DIST_gamma, DIST_exponential, DIST_uniform };
typedef struct Dist { int kind; double p1, p2; } Dist;
typedef struct DistU { unsigned long a, b; } DistU;
int verif_dist_kind; double verif_dist_p1, verif_dist_p2;     /* ghost: the last continuous distribution object that was sampled */
static inline void Dist__normal(Dist *d, double mean, double stddev) { d->kind = DIST_normal; d->p1 = mean; d->p2 = stddev; }
static inline void Dist__gamma(Dist *d, double shape, double scale) { d->kind = DIST_gamma; d->p1 = shape; d->p2 = scale; }      /* std::gamma_distribution(alpha, beta): beta is the SCALE */
static inline void Dist__exponential(Dist *d, double lambda) { d->kind = DIST_exponential; d->p1 = lambda; d->p2 = 0; }           /* std::exponential_distribution(lambda): lambda is the RATE */
static inline void Dist__uniform(Dist *d, double a, double b) { d->kind = DIST_uniform; d->p1 = a; d->p2 = b; }
static inline void DistU__uniform(DistU *d, unsigned long a, unsigned long b) { d->a = a; d->b = b; }
double in_r;     /* the last variate drawn from a continuous distribution object (named so that counterexample traces show it) */
static inline double Dist__op_call(Dist *d, Rng *g) { verif_dist_kind = d->kind; verif_dist_p1 = d->p1; verif_dist_p2 = d->p2; double r = nondet_double();
  if (d->kind == DIST_uniform) { __CPROVER_assume(r >= d->p1 && (r < d->p2 || d->p1 == d->p2));   /* TRUSTED: uniform_real_distribution draws from [a, b) */
    /* on [0, 1) libstdc++ returns (double)N * 2^-64 for the 64-bit N made of two outputs of the twister (1 - 2^-53 when that rounds to 1): exactly these
       values are drawn, so that every counterexample can be replayed on the real generator */
    if (d->p1 == 0.0 && d->p2 == 1.0) { unsigned long N = nondet_ulong(); r = (double)N * 0x1p-64; if (r >= 1.0) r = 0x1.fffffffffffffp-1; } }
  in_r = r; return r; }
static inline unsigned long DistU__op_call(DistU *d, Rng *g) { unsigned long r = nondet_ulong(); __CPROVER_assume(r >= d->a && r <= d->b);   /* TRUSTED: uniform_int_distribution draws from [a, b] */
  return r; }
/* rcont2: the probability terms.  exp(...) is some finite non-negative number; products and quotients of non-negative finite numbers are non-negative
   and finite (ASSUMED: no overflow of the probability terms), and multiplying by a variate of [0, 1) does not increase (true of IEEE arithmetic) */
#define VERIF_PFIN(v) ((v) >= 0.0 && (v) <= 1.7976931348623157e308)
/* the two size_t products of the search loops, (id - nlm) * (ia - nlm) and nll * (ii + nll), only matter through "is it zero" and as a factor of the
   (uninterpreted) probability ratio: any function that is zero exactly when a factor is zero (true of the product of two numbers below 2^32;
   64-bit multipliers in every unwound iteration made the run last 30 min) */
unsigned long __CPROVER_uninterpreted_umul(unsigned long, unsigned long);
static inline unsigned long verif_umul(unsigned long a, unsigned long b) { unsigned long r = __CPROVER_uninterpreted_umul(a, b);
  __CPROVER_assert(a < (1UL << 32) && b < (1UL << 32), "verif_model_bound: factors of the abstracted product below 2^32"); __CPROVER_assume((r == 0) == (a == 0 || b == 0)); return r; }
/* every probability term (exp(...), each ratio) is at most 1e300, so that the few sums of them stay finite (ASSUMED: no overflow of the probability terms) */
#define VERIF_PTERM(v) ((v) >= 0.0 && (v) <= 1e300)
static inline double verif_expl(double x) { double r = __CPROVER_uninterpreted_exp(x); __CPROVER_assume(VERIF_PTERM(r)); return r; }
static inline double verif_pmul(double a, double b) { double r = __CPROVER_uninterpreted_fmul(a, b); if (VERIF_PFIN(a) && VERIF_PFIN(b)) { __CPROVER_assume(VERIF_PFIN(r)); if (b < 1.0) __CPROVER_assume(r <= a); } return r; }
static inline double verif_pdiv(double a, double b) { double r = __CPROVER_uninterpreted_fdiv(a, b); if (VERIF_PFIN(a) && b > 0.0 && VERIF_PFIN(b)) __CPROVER_assume(VERIF_PTERM(r)); return r; }
double __CPROVER_uninterpreted_sqrt(double);
static inline double verif_sqrt(double x) { return __CPROVER_uninterpreted_sqrt(x); }
'''
PRELUDE = r'''
#ifdef VERIF_MODE_BOUNDED
/* VectorTools::cumSum (std::partial_sum on a copy) and vector /= scalar: executable models */
static inline Vec_double verif_cumsum(const Vec_double *v) { Vec_double r; Vec_double__ctor_copy(&r, v); double s = 0; for (unsigned long i = 0; i < VEC_BCAP; ++i) if (i < r.n) { if (i == 0) s = r.d[0]; else s = s + r.d[i]; r.d[i] = s; } return r; }
#define op_diveq__Vec_double__double verif_vdiv
/* the quotient is any function of its operands that satisfies x / x == 1 and 0 / x == 0 for finite x > 0 (true of IEEE division): the picks only depend on that
   fact and on equal operands giving equal quotients; exact division made these runs last 20 min for two elements */
static inline double verif_quot(double a, double c) { double q = verif_uf_div(a, c); if (c > 0 && c <= 1.7976931348623157e308) { if (a == c) __CPROVER_assume(q == 1.0); if (a == 0.0) __CPROVER_assume(q == 0.0); } return q; }
static inline void verif_vdiv(Vec_double *v, const double *c) { for (unsigned long i = 0; i < VEC_BCAP; ++i) if (i < v->n) v->d[i] = verif_quot(v->d[i], *c); }
static inline unsigned long verif_usum(const IdxVec *v) { unsigned long s = 0; for (unsigned long i = 0; i < VEC_BCAP; ++i) if (i < v->n) s += v->d[i]; return s; }
/* VectorTools::sum: left fold from 0 */
static inline double verif_vsum(const Vec_double *v) { double s = 0; for (unsigned long i = 0; i < VEC_BCAP; ++i) if (i < v->n) s += v->d[i]; return s; }
#else
double verif_vsum(const Vec_double *v);
Vec_double verif_cumsum(const Vec_double *v);
void verif_vdiv(Vec_double *v, const double *c);
#endif
#define VOBJ(v) (__CPROVER_is_fresh(v, sizeof(*(v))) && VEC_FRESH(v))
#ifndef VERIF_MODE_BOUNDED
static inline void verif_iota(IdxVec *first, IdxVec *last, int start) { }        /* iota(begin, end, 0): every element is its index, hence below n */
static inline void verif_shuffle(IdxVec *first, IdxVec *last, Rng *g) { }       /* shuffle permutes in place */
#endif
'''
STUB_CONTRACTS = {'IdxVec__op_index'}

def L(var, bound, assigns=(), inv=(), dec=None):
    a = ', '.join([var] + list(assigns))
    return dict(assigns=a, invariant=['%s <= %s' % (var, bound)] + list(inv), decreases=dec or '%s - %s' % (bound, var))

RT = 'bpp::RandomTools::'
GH = ['verif_dist_kind', 'verif_dist_p1', 'verif_dist_p2', 'in_r']
FUNCS = [
    # ---- conventions: "a mean argument is the mean, a rate argument is the rate, a variance argument is the variance" ----
    dict(cname='RandomTools__randGaussian', qname=RT + 'randGaussian', requires=['!VERIF_ISNAN(mean)'],
         ensures=['verif_dist_kind == DIST_normal && verif_dist_p1 == mean',
                  # the standard deviation handed to std::normal_distribution is the square root of the variance argument
                  'verif_dist_p2 == verif_sqrt(variance) || (VERIF_ISNAN(verif_dist_p2) && VERIF_ISNAN(verif_sqrt(variance)))'],
         assigns=GH),
    dict(cname='RandomTools__randExponential', qname=RT + 'randExponential', requires=['mean > 0 && VERIF_ISFINITE(mean)'],
         # std::exponential_distribution takes the rate: a distribution with the given mean has rate 1 / mean
         ensures=['verif_dist_kind == DIST_exponential', 'verif_dist_p1 == verif_uf_div(1.0, mean) || (VERIF_ISNAN(verif_dist_p1) && VERIF_ISNAN(verif_uf_div(1.0, mean)))'], assigns=GH),
    dict(cname='RandomTools__randGamma1', qname=RT + 'randGamma', sig='double (double)', requires=['alpha > 0'],
         ensures=['verif_dist_kind == DIST_gamma && verif_dist_p1 == alpha && verif_dist_p2 == 1.0'], assigns=GH),
    dict(cname='RandomTools__randGamma2', qname=RT + 'randGamma', sig='double (double, double)', requires=['alpha > 0 && beta > 0 && VERIF_ISFINITE(beta)'],
         # beta is a RATE in the library's cumulative functions (pGamma evaluates incompleteGamma(beta * x, alpha)); std::gamma_distribution takes the scale 1 / beta
         ensures=['verif_dist_kind == DIST_gamma && verif_dist_p1 == alpha', 'verif_dist_p2 == verif_uf_div(1.0, beta) || (VERIF_ISNAN(verif_dist_p2) && VERIF_ISNAN(verif_uf_div(1.0, beta)))'], assigns=GH),
    dict(cname='GaussianDiscreteDistribution__randC', qname=GD + '::randC', requires=['__CPROVER_is_fresh(self, sizeof(*self))', '!VERIF_ISNAN(self->mu_) && self->sigma_ >= 0'],
         # the continuous draw of the gaussian family: mean mu, standard deviation sigma, i.e. variance sigma^2
         ensures=['1'], assigns=GH, contract=False),
    # ---- uniform integers, picks and samples: refusals and index safety for every size ----
    dict(cname='RandomTools__giveRandomNumberBetweenZeroAndEntry', qname=RT + 'giveRandomNumberBetweenZeroAndEntry', requires=['entry >= 0 && VERIF_ISFINITE(entry)'],
         ensures=['__CPROVER_return_value >= 0 && (__CPROVER_return_value < entry || entry == 0)'], assigns=GH),
    dict(cname='RandomTools__giveIntRandom', qname=RT + 'giveIntRandomNumberBetweenZeroAndEntry', targs=['unsigned long'], requires=['1'],
         ensures=['(verif_exc != 0) == (entry == 0)', 'verif_exc == 0 || verif_exc == EXC_Exception', 'verif_exc == 0 ==> __CPROVER_return_value < entry'],
         assigns=['verif_exc']),
    dict(cname='RandomTools__pickOne_c', qname=RT + 'pickOne', targs=['int'], sig='int (const std::vector<int> &)', requires=['VOBJ(v)'],
         # emptiness is reported by exception; otherwise an element of the source (ghost-free form: some index holds the result)
         ensures=['(verif_exc != 0) == (v->n == 0)', 'verif_exc == 0 || verif_exc == EXC_EmptyVectorException'],
         assigns=['verif_exc']),
    dict(cname='RandomTools__pickOne', qname=RT + 'pickOne', targs=['int'], sig='int (std::vector<int> &, bool)', requires=['VOBJ(v)'],
         ensures=['(verif_exc != 0) == (__CPROVER_old(v->n) == 0)', 'verif_exc == 0 || verif_exc == EXC_EmptyVectorException',
                  # without replacement exactly one element leaves the source
                  'verif_exc == 0 ==> v->n == __CPROVER_old(v->n) - (replace ? 0 : 1)', 'verif_exc != 0 ==> v->n == __CPROVER_old(v->n)'],
         assigns=['verif_exc', 'v->n', '__CPROVER_object_whole(v->d)']),
    dict(cname='RandomTools__getSample', qname=RT + 'getSample', targs=['int'], sig='void (const std::vector<int> &, std::vector<int> &, bool)', requires=['VOBJ(vin)', 'VOBJ(vout)'],
         # over-long requests without replacement are refused; with replacement an empty source is reported by exception
         ensures=['verif_exc == 0 || verif_exc == EXC_IndexOutOfBoundsException || verif_exc == EXC_EmptyVectorException',
                  '(verif_exc == EXC_IndexOutOfBoundsException) == (!replace && vout->n > vin->n)',
                  '(verif_exc == EXC_EmptyVectorException) == (replace && vout->n > 0 && vin->n == 0)', 'vout->n == __CPROVER_old(vout->n)'],
         assigns=['verif_exc', '__CPROVER_object_whole(vout->d)'],
         loops={1: L('i', 'vout->n', assigns=['verif_exc', '__CPROVER_object_whole(vout->d)'], inv=['verif_exc == 0']),
                2: L('i', 'vout->n', assigns=['__CPROVER_object_whole(vout->d)'], inv=['hat.n == vin->n', 'vout->n <= vin->n'])}),
    dict(cname='RandomTools__pickFromCumSum', qname=RT + 'pickFromCumSum', requires=['VOBJ(w)', 'w->n >= 1'],
         ensures=['verif_exc == 0', '__CPROVER_return_value < w->n'], assigns=GH,
         loops={1: dict(assigns='pos', invariant=['pos <= w->n - 1'], decreases='w->n - pos')}),
]
FUNCS += [
    # body only (bounded runs with machine floating point: the rounding of the cumulated probabilities is the point)
    dict(cname='RandomTools__randMultinomial', qname=RT + 'randMultinomial', uf_ops={}),
    dict(cname='ContingencyTableGenerator__ctor_2', qname=CTG + '::ContingencyTableGenerator', uf_ops={}),
    # the probability arithmetic (every * and / on x, y, sumprb, dummy and on the ratio terms over nlm / nll) is abstracted by functions that are
    # non-negative on non-negative operands and contract (a * u <= a for 0 <= u < 1); the conditional-mean formula that initialises nlm is machine arithmetic
    dict(cname='ContingencyTableGenerator__rcont2', qname=CTG + '::rcont2', uf_ops={'*': 'verif_pmul', '/': 'verif_pdiv'}, uf_int_ops={'*': 'verif_umul'}, uf_names=r'\b(x|y|sumprb|dummy|nlm|nll)\b'),
    dict(cname='RandomTools__pickOne_w', qname=RT + 'pickOne', targs=['int'], sig='int (std::vector<int> &, std::vector<double> &, bool)', uf_ops={}),
    dict(cname='RandomTools__pickOne_cw', qname=RT + 'pickOne', targs=['int'], sig='int (const std::vector<int> &, const std::vector<double> &)', uf_ops={}),
]
LEMMAS = [
    dict(id='l_GaussianDiscreteDistribution_randC', kind='lemma', entry='h', replace=['RandomTools__randGaussian'], bodies=['GaussianDiscreteDistribution__randC'],
         doc='GaussianDiscreteDistribution::randC draws with mean mu and variance sigma^2 (the variance argument of randGaussian is a variance)',
         harness=r'''
void h(void) { GaussianDiscreteDistribution g; g.mu_ = nondet_double(); g.sigma_ = nondet_double(); __CPROVER_assume(!VERIF_ISNAN(g.mu_) && g.sigma_ >= 0 && g.sigma_ <= 1e100);
  double m = g.mu_, s = g.sigma_;
  GaussianDiscreteDistribution__randC(&g);
  __CPROVER_assert(verif_dist_kind == DIST_normal && verif_dist_p1 == m, "gaussian randC: normal law with mean mu");
  { double e = verif_sqrt(verif_uf_mul(s, s)); __CPROVER_assert(verif_dist_p2 == e || (verif_dist_p2 != verif_dist_p2 && e != e), "gaussian randC: the variance handed to randGaussian is sigma squared"); }
  __CPROVER_assert(0, "verif_canary reachable after call"); }
'''),
]
REPLAY = {'re:^b_(randMultinomial|weightedPick)': dict(adapter='c18_multinomial.cpp'), 're:^b_rcont2': dict(adapter='c18_rcont2.cpp'), 'p_RandomTools__randExponential': dict(adapter='c18_conv.cpp'), 'p_RandomTools__randGamma2': dict(adapter='c18_conv.cpp'),
          'l_GaussianDiscreteDistribution_randC': dict(adapter='c18_gauss.cpp')}
TRUSTED = ['the laws of libstdc++\'s <random> distributions and of the Mersenne twister (assumed; only the parameters handed to them are decided)',
           'std::iota / std::shuffle by contract (shuffle permutes in place)', 'sqrt uninterpreted']
ASSUMPTIONS = ['weights vectors of length >= 1 for pickFromCumSum (quantifier of C18)']
NOT_DECIDED = ['goodness of fit of any sampler, seeding / reproducibility of the stream, getPValue in [0,1], frequencies of weighted picks, weighted getSample, randBeta (quantile of a uniform draw), contingency tables']

# ---- bounded: multiset facts of picks and samples ------------------------------------------------------------------------
PRELUDE += r'''
#ifdef VERIF_MODE_BOUNDED
static inline void verif_iota(unsigned long *first, unsigned long *last, int start) { long n = last - first; for (long k = 0; k < VEC_BCAP; ++k) if (k < n) first[k] = (unsigned long)start + (unsigned long)k; }
/* std::shuffle: any permutation (Fisher-Yates with a non-deterministic choice at every step) */
static inline void verif_shuffle(unsigned long *first, unsigned long *last, Rng *g) { long n = last - first;
  for (long i = 0; i < VEC_BCAP; ++i) if (i < n) { long j = nondet_long(); __CPROVER_assume(j >= i && j < n); unsigned long t = first[i]; first[i] = first[j]; first[j] = t; } }
#endif
'''
H_SAMPLE = r'''
#define FOR(i, n) for (unsigned long i = 0; i < (unsigned long)(n); ++i)
int in_v[NIN + 1];
static void mkv(Vec_int *v, unsigned long n, _Bool named) { v->d = (int*)verif_new_array(VEC_BCAP, sizeof(int)); v->n = n; FOR(i, n) { int x = nondet_int(); __CPROVER_assume(x >= 0 && x <= 2); if (named) in_v[i] = x; v->d[i] = x; } }
static unsigned long cnt(const int *a, unsigned long n, int x) { unsigned long c = 0; FOR(i, VEC_BCAP) if (i < n && a[i] == x) c++; return c; }
void h(void) { Vec_int vin, vout; mkv(&vin, NIN, 1); mkv(&vout, NOUT, 0); verif_exc = 0;
  RandomTools__getSample(&vin, &vout, REPLACE);
  if (!REPLACE && NOUT > NIN) __CPROVER_assert(verif_exc == EXC_IndexOutOfBoundsException, "sampling without replacement refuses over-long requests");
  else if (REPLACE && NOUT > 0 && NIN == 0) __CPROVER_assert(verif_exc == EXC_EmptyVectorException, "emptiness is reported by exception");
  else { __CPROVER_assert(verif_exc == 0 && vout.n == NOUT, "the sample has the requested size");
    FOR(i, NOUT) __CPROVER_assert(cnt(in_v, NIN, vout.d[i]) > 0, "every sampled element is an element of the source");
    if (!REPLACE) for (int x = 0; x <= 2; ++x) __CPROVER_assert(cnt(vout.d, NOUT, x) <= cnt(in_v, NIN, x), "without replacement the sample uses distinct source positions (multiset inclusion; a permutation when sizes match)"); }
  FOR(i, NIN) __CPROVER_assert(vin.d[i] == in_v[i] && vin.n == NIN, "the source is not modified");
  __CPROVER_assert(0, "verif_canary reachable after call"); }
'''
H_PICK = r'''
#define FOR(i, n) for (unsigned long i = 0; i < (unsigned long)(n); ++i)
int in_v[NIN + 1];
static unsigned long cnt(const int *a, unsigned long n, int x) { unsigned long c = 0; FOR(i, VEC_BCAP) if (i < n && a[i] == x) c++; return c; }
void h(void) { Vec_int v; v.d = (int*)verif_new_array(VEC_BCAP, sizeof(int)); v.n = NIN; FOR(i, NIN) { in_v[i] = nondet_int(); __CPROVER_assume(in_v[i] >= 0 && in_v[i] <= 2); v.d[i] = in_v[i]; }
  verif_exc = 0; int e = RandomTools__pickOne(&v, REPLACE);
  if (NIN == 0) __CPROVER_assert(verif_exc == EXC_EmptyVectorException && v.n == 0, "emptiness is reported by exception");
  else { __CPROVER_assert(verif_exc == 0 && cnt(in_v, NIN, e) > 0, "the pick is an element of the source");
    if (REPLACE) { __CPROVER_assert(v.n == NIN, "with replacement the source keeps its size"); FOR(i, NIN) __CPROVER_assert(v.d[i] == in_v[i], "with replacement the source is unchanged"); }
    else { __CPROVER_assert(v.n == NIN - 1, "without replacement exactly one element leaves the source");
      for (int x = 0; x <= 2; ++x) __CPROVER_assert(cnt(v.d, v.n, x) + (x == e ? 1 : 0) == cnt(in_v, NIN, x), "without replacement exactly one occurrence of the pick is removed"); } }
  __CPROVER_assert(0, "verif_canary reachable after call"); }
'''
H_MULTI = r'''
double in_p[K + 1];
void h(void) { Vec_double probs; probs.d = (double*)verif_new_array(VEC_BCAP, sizeof(double)); probs.n = K; _Bool some = 0;
  for (unsigned long i = 0; i < K; ++i) { in_p[i] = nondet_double(); __CPROVER_assume(in_p[i] == 0.0 || (in_p[i] >= 0.001 && in_p[i] <= 1000.0)); if (in_p[i] > 0) some = 1; probs.d[i] = in_p[i]; }
  __CPROVER_assume(some); verif_exc = 0;
  IdxVec sample = RandomTools__randMultinomial(1, &probs);
  __CPROVER_assert(verif_exc == 0 && sample.n == 1, "one draw is returned");
  __CPROVER_assert(sample.d[0] < K, "a multinomial draw is one of the classes");
  __CPROVER_assert(sample.d[0] >= K || in_p[sample.d[0]] > 0, "a class of probability zero is never drawn");
  __CPROVER_assert(0, "verif_canary reachable after call"); }
'''
H_WPICK = r'''
#define FOR(i, n) for (unsigned long i = 0; i < (unsigned long)(n); ++i)
int in_v[NIN + 1]; double in_w[NIN + 1];
void h(void) { Vec_int v; Vec_double w; v.d = (int*)verif_new_array(VEC_BCAP, sizeof(int)); v.n = NIN; w.d = (double*)verif_new_array(VEC_BCAP, sizeof(double)); w.n = NIN; _Bool some = 0;
  FOR(i, NIN) { in_v[i] = nondet_int(); __CPROVER_assume(in_v[i] >= 0 && in_v[i] <= 2); v.d[i] = in_v[i];
    in_w[i] = nondet_double(); __CPROVER_assume(in_w[i] == 0.0 || (in_w[i] >= 0.001 && in_w[i] <= 1000.0)); if (in_w[i] > 0) some = 1; w.d[i] = in_w[i]; }
  __CPROVER_assume(some || NIN == 0); verif_exc = 0;
#if MODE == 2
  int e = RandomTools__pickOne_cw(&v, &w);
#else
  int e = RandomTools__pickOne_w(&v, &w, MODE);
#endif
  if (NIN == 0) __CPROVER_assert(verif_exc == EXC_EmptyVectorException, "emptiness is reported by exception");
  else { __CPROVER_assert(verif_exc == 0, "a weighted pick from a non-empty source does not raise");
    /* the pick is an element whose weight is not null */
    _Bool ok = 0; FOR(i, NIN) if (in_v[i] == e && in_w[i] > 0) ok = 1;
    __CPROVER_assert(ok, "a weighted pick is a source element of non-null weight");
#if MODE == 0
    __CPROVER_assert(v.n == NIN - 1 && w.n == NIN - 1, "without replacement exactly one element and its weight leave");
    /* some position p held the pick: the last pair moved there, every other pair stays */
    _Bool paired = 0; FOR(p, NIN) if (in_v[p] == e && in_w[p] > 0) { _Bool same = 1; FOR(i, NIN - 1) { unsigned long src = (i == p ? NIN - 1 : i); if (v.d[i] != in_v[src] || w.d[i] != in_w[src]) same = 0; } if (same) paired = 1; }
    __CPROVER_assert(paired, "without replacement the remaining elements keep their own weights");
#else
    __CPROVER_assert(v.n == NIN && w.n == NIN, "with replacement the source keeps its size"); FOR(i, NIN) __CPROVER_assert(v.d[i] == in_v[i] && w.d[i] == in_w[i], "with replacement source and weights are unchanged");
#endif
  }
  __CPROVER_assert(0, "verif_canary reachable after call"); }
'''
H_RCONT = r'''
unsigned long in_r0, in_r1, in_c0, in_c1;
void h(void) { IdxVec rt, ct; rt.d = (unsigned long*)verif_new_array(VEC_BCAP, sizeof(unsigned long)); ct.d = (unsigned long*)verif_new_array(VEC_BCAP, sizeof(unsigned long)); rt.n = 2; ct.n = 2;
  in_r0 = nondet_ulong(); in_r1 = nondet_ulong(); in_c0 = nondet_ulong(); in_c1 = nondet_ulong();
  __CPROVER_assume(in_r0 <= NTOT && in_r1 <= NTOT && in_c0 <= NTOT && in_c1 <= NTOT && in_r0 + in_r1 == in_c0 + in_c1 && in_r0 + in_r1 <= NTOT);
  rt.d[0] = in_r0; rt.d[1] = in_r1; ct.d[0] = in_c0; ct.d[1] = in_c1; verif_exc = 0;
  ContingencyTableGenerator g; ContingencyTableGenerator__ctor_2(&g, &rt, &ct);
  __CPROVER_assert(verif_exc == 0, "margins with equal totals are accepted");
  MatU t = ContingencyTableGenerator__rcont2(&g);
  __CPROVER_assert(verif_exc == 0 && t.rows == 2 && t.cols == 2, "a 2 x 2 table is returned");
  __CPROVER_assert(MD(t, 0, 0) + MD(t, 0, 1) == in_r0 && MD(t, 1, 0) + MD(t, 1, 1) == in_r1, "the table has exactly the requested row totals");
  __CPROVER_assert(MD(t, 0, 0) + MD(t, 1, 0) == in_c0 && MD(t, 0, 1) + MD(t, 1, 1) == in_c1, "the table has exactly the requested column totals");
  __CPROVER_assert(MD(t, 0, 0) <= NTOT && MD(t, 0, 1) <= NTOT && MD(t, 1, 0) <= NTOT && MD(t, 1, 1) <= NTOT, "no entry is negative (wrapped)");
  __CPROVER_assert(0, "verif_canary reachable after call"); }
'''
def generate_jobs(unit, tier):
    jobs = []
    # quick: one pass of the rejection loop, totals <= 2; thorough: two passes, totals <= 3.  The rejection loop ends with probability one but not within a
    # bound (a new variate is drawn at every pass): it is bounded on purpose, executions that need more passes are cut
    for ntot, passes in (((2, 1),) if tier != 'thorough' else ((2, 2), (3, 2))):
        jobs.append(dict(id='b_rcont2_2x2_n%d_p%d' % (ntot, passes), kind='bounded', mode='bounded', entry='h', bodies=['RandomTools__giveRandomNumberBetweenZeroAndEntry', 'ContingencyTableGenerator__ctor_2', 'ContingencyTableGenerator__rcont2'], harness=H_RCONT,
                         unwind=ntot + 3, timeout=3000, defs='#define NTOT %d\n#define VEC_BCAP %d\n#define MAT_B 2\n' % (ntot, ntot + 2), mem_kb=24 * 1024 * 1024,
                         bound_loops=['ContingencyTableGenerator__rcont2.unwind.4'],
                         cbmc_flags=['--unwindset', ','.join('ContingencyTableGenerator__rcont2.%d:%d' % (k, b) for k, b in ((0, 2), (1, 2), (5, 2), (6, 2), (7, 2), (4, passes + 1), (2, ntot + 2), (3, ntot + 2)))],
                         bound='2 x 2 tables, every pair of margins with a common total <= %d, at most %d pass(es) of the rejection loop; long double computed as double; exp, the probability ratios and the two integer products of the search loops uninterpreted with the axioms stated in the unit; the uniform variates any value the generator can return' % (ntot, passes),
                         doc='rcont2: index safety of the log-factorial table, exact row and column totals, no wrapped entry'))
    wmax = 4 if tier == 'thorough' else 3
    for nin in range(0, wmax + 1):
        for mode, what in ((0, 'without replacement'), (1, 'with replacement'), (2, 'const overload')):
            jobs.append(dict(id='b_weightedPick_n%d_m%d' % (nin, mode), kind='bounded', mode='bounded', entry='h', bodies=['RandomTools__giveRandomNumberBetweenZeroAndEntry', 'RandomTools__pickOne_w', 'RandomTools__pickOne_cw'], harness=H_WPICK,
                             unwind=nin + 3, timeout=1500, defs='#define NIN %d\n#define MODE %d\n#define VEC_BCAP %d\n' % (nin, mode, nin + 1),
                             bound='%d elements in {0,1,2}, each weight 0 or in [0.001, 1000], one weight not null, %s; machine floating point; the uniform variate is any double of [0, 1)' % (nin, what),
                             doc='weighted pickOne: an element of non-null weight; without replacement element and weight leave together'))
    for k in (1, 2, 3) + ((4,) if tier == 'thorough' else ()):
        jobs.append(dict(id='b_randMultinomial_k%d' % k, kind='bounded', mode='bounded', entry='h', bodies=['RandomTools__giveRandomNumberBetweenZeroAndEntry', 'RandomTools__randMultinomial'], harness=H_MULTI,
                         unwind=k + 3, timeout=1500, defs='#define K %d\n#define VEC_BCAP %d\n' % (k, k + 1),
                         bound='%d classes, each probability 0 or in [0.001, 1000] (not normalised), one draw; machine floating point; the uniform variate is any double of [0, 1)' % k,
                         doc='randMultinomial returns a class index, never a class of probability zero'))
    bodies = ['RandomTools__giveIntRandom', 'RandomTools__pickOne_c', 'RandomTools__pickOne', 'RandomTools__getSample']
    nmax = 4 if tier == 'thorough' else 3
    for nin in range(0, nmax + 1):
        for rep in (0, 1):
            jobs.append(dict(id='b_pickOne_n%d_rep%d' % (nin, rep), kind='bounded', mode='bounded', entry='h', bodies=bodies, harness=H_PICK, unwind=nmax + 3, timeout=600,
                             defs='#define NIN %d\n#define REPLACE %d\n#define VEC_BCAP %d\n' % (nin, rep, nmax + 1), bound='source of %d elements in {0,1,2}, replace=%d; the random index is any admissible value' % (nin, rep),
                             doc='pickOne: element of the source; without replacement removes exactly one occurrence'))
            for nout in range(0, nmax + 1):
                jobs.append(dict(id='b_getSample_n%d_m%d_rep%d' % (nin, nout, rep), kind='bounded', mode='bounded', entry='h', bodies=bodies, harness=H_SAMPLE, unwind=nmax + 3, timeout=600,
                                 defs='#define NIN %d\n#define NOUT %d\n#define REPLACE %d\n#define VEC_BCAP %d\n' % (nin, nout, rep, nmax + 1),
                                 bound='source %d, sample %d, elements in {0,1,2}, replace=%d; std::shuffle yields any permutation' % (nin, nout, rep),
                                 doc='getSample: refusals, source elements only, distinct positions without replacement'))
    return jobs
