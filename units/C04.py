"""C04 - matrix operations match their definitions for every shape and storage layout (DESIGN.md section 4, C04)."""
PROPERTY = 'C04'
LEVEL = 'proof'

INST = r'''
#include <Bpp/Numeric/Matrix/MatrixTools.h>
using namespace bpp;
template<class S> void verif_inst(Matrix<S>& A, Matrix<S>& iA, Matrix<S>& B, Matrix<S>& iB, Matrix<S>& O, Matrix<S>& iO,
                                  std::vector<S>& D, std::vector<S>& iD, std::vector<S>& U, std::vector<S>& L, S x, size_t n,
                                  std::vector<RowMatrix<S>>& vO, std::vector<Matrix<S>*>& vA, std::vector<std::vector<S>>& vv,
                                  std::vector<int>& rs, std::vector<int>& cs, std::vector<S>& u, std::vector<S>& v, RowMatrix<S>& R, RowMatrix<S>& RO)
{
  MatrixTools::copy(A, O); MatrixTools::copyUp(A, O); MatrixTools::copyDown(A, O); MatrixTools::getId(n, O);
  MatrixTools::diag(D, O); MatrixTools::diag(x, n, O); MatrixTools::diag(A, D);
  MatrixTools::fill(O, x); MatrixTools::fillDiag(O, x); MatrixTools::scale(O, x, x);
  MatrixTools::mult(A, B, O); MatrixTools::mult(A, iA, B, iB, O, iO); MatrixTools::mult(A, D, B, O);
  MatrixTools::mult(A, iA, D, iD, B, iB, O, iO); MatrixTools::mult(A, D, U, L, B, O);
  MatrixTools::add(O, A); MatrixTools::add(O, x, A);
  MatrixTools::pow(R, n, RO); MatrixTools::template Taylor<Matrix<S>, S>(A, n, vO);
  MatrixTools::whichMax(A); MatrixTools::whichMin(A); MatrixTools::max(A); MatrixTools::min(A);
  MatrixTools::isSquare(A); MatrixTools::transpose(A, O); MatrixTools::isSymmetric(A);
  MatrixTools::kroneckerMult(A, B, O); MatrixTools::kroneckerMult(A, n, x, O); MatrixTools::kroneckerMult(A, B, x, x, O);
  MatrixTools::hadamardMult(A, B, O); MatrixTools::hadamardMult(A, iA, B, iB, O, iO); MatrixTools::hadamardMult(A, D, O);
  MatrixTools::directSum(A, B, O); MatrixTools::directSum(vA, O); MatrixTools::toVVdouble(A, vv); MatrixTools::sumElements(A);
}
template void verif_inst<double>(Matrix<double>&, Matrix<double>&, Matrix<double>&, Matrix<double>&, Matrix<double>&, Matrix<double>&,
   std::vector<double>&, std::vector<double>&, std::vector<double>&, std::vector<double>&, double, size_t,
   std::vector<RowMatrix<double>>&, std::vector<Matrix<double>*>&, std::vector<std::vector<double>>&, std::vector<int>&, std::vector<int>&, std::vector<double>&, std::vector<double>&, RowMatrix<double>&, RowMatrix<double>&);
template void verif_inst<int>(Matrix<int>&, Matrix<int>&, Matrix<int>&, Matrix<int>&, Matrix<int>&, Matrix<int>&,
   std::vector<int>&, std::vector<int>&, std::vector<int>&, std::vector<int>&, int, size_t,
   std::vector<RowMatrix<int>>&, std::vector<Matrix<int>*>&, std::vector<std::vector<int>>&, std::vector<int>&, std::vector<int>&, std::vector<int>&, std::vector<int>&, RowMatrix<int>&, RowMatrix<int>&);
'''
TUS = {'mt': dict(src=INST, filter='bpp::MatrixTools')}

MD = 'bpp::Matrix<double>'
MI = 'bpp::Matrix<int>'
CFG = dict(
    types={MD: 'MatD', MI: 'MatI', 'bpp::RowMatrix<double>': 'MatD', 'bpp::RowMatrix<int>': 'MatI'},
    plain=set(),
    rename={},
    free={('log', 1): 'verif_log', ('min', 2): 'verif_min_ulong',
          # calls between MatrixTools routines (static members: resolved by name and the callee's type)
          ('getId',): [('(size_t, bpp::RowMatrix<int> &)', 'MatrixTools__getId_R_i'), ('(size_t, bpp::Matrix<int> &)', 'MatrixTools__getId_i'), ('(size_t, bpp::Matrix<double> &)', 'MatrixTools__getId')],
          ('copy',): [('(const bpp::RowMatrix<int> &, bpp::RowMatrix<int> &)', 'MatrixTools__copy_R_i'), ('(const bpp::Matrix<int> &, bpp::Matrix<int> &)', 'MatrixTools__copy_i'), ('(const bpp::Matrix<double> &, bpp::Matrix<double> &)', 'MatrixTools__copy')],
          ('mult',): [('(const Matrix<int> &, const Matrix<int> &, Matrix<int> &)', 'MatrixTools__mult3_i'), ('(const Matrix<double> &, const Matrix<double> &, Matrix<double> &)', 'MatrixTools__mult3')],
          ('pow',): [('(const bpp::RowMatrix<int> &, size_t, bpp::RowMatrix<int> &)', 'MatrixTools__pow_i')]},
    throws=set(),
)
# every matrix class is the abstract interface model in these units
for k, v in list(CFG['types'].items()):
    for meth in ('getNumberOfRows', 'getNumberOfColumns', 'resize', 'operator()'):
        pass
STRUCTS = []
PRE_STRUCTS = r'''
#include "vec.h"
#include "mat.h"
#include "libm.h"
MAT_DECL(double, MatD)
MAT_DECL(int, MatI)
VEC_DECL(double, Vec_double)
VEC_DECL(int, Vec_int)
VEC_DECL(unsigned long, Vec_ulong)
'''
PRELUDE = r'''
static inline const unsigned long *verif_min_ulong(const unsigned long *a, const unsigned long *b) { return (*b < *a) ? b : a; }
'''
STUB_CONTRACTS = {'MatD__op_call', 'MatD__resize', 'MatI__op_call', 'MatI__resize',
                  'Vec_double__push_back', 'Vec_double__resize', 'Vec_ulong__resize', 'Vec_ulong__ctor_1'}

def L(var, bound, assigns=(), inv=(), start=None, dec=None):
    """standard counter loop: for (var = ..; var < bound; var++)"""
    a = ', '.join([var] + list(assigns))
    return dict(assigns=a, invariant=['%s <= %s' % (var, bound)] + list(inv), decreases=dec or '%s - %s' % (bound, var))

FUNCS = []
MAT_NAMES = ('A', 'iA', 'B', 'iB', 'O', 'iO', 'M', 'm')
VEC_NAMES = ('D', 'iD', 'U', 'L')
def F(name, cname, targs, sig=None, **k):
    # input mirrors (shapes) and a narrowed small-shape variant for replayable counterexamples
    req = ' '.join(k.get('requires', []))
    mir, cexr = {}, []
    for n in MAT_NAMES:
        if 'MAT_FRESH(%s)' % n in req:
            mir[n] = [('unsigned long', 'rows'), ('unsigned long', 'cols')]; cexr.append('%s->rows <= 3 && %s->cols <= 3' % (n, n))
    for n in VEC_NAMES + (('O', 'B') if 'VEC_FRESH(O)' in req or 'VEC_FRESH(B)' in req else ()):
        if 'VEC_FRESH(%s)' % n in req:
            mir[n] = [('unsigned long', 'n')]; cexr.append('%s->n <= 3' % n)
    k.setdefault('mirror', mir); k.setdefault('cex_requires', cexr)
    FUNCS.append(dict(cname=cname, qname='bpp::MatrixTools::' + name, targs=targs, sig=sig, **k))

MF = 'MAT_FRESH'
TD = ['double']
TMM = ['bpp::Matrix<double>', 'bpp::Matrix<double>']
DIM = 'verif_exc == EXC_DimensionException'


def shape_same(M):
    return '%s->rows == __CPROVER_old(%s->rows) && %s->cols == __CPROVER_old(%s->cols)' % (M, M, M, M)

def raises(cond, outs=('O',)):
    """DimensionException iff cond, and then nothing observable changed"""
    e = ['(verif_exc != 0) == (%s)' % cond, 'verif_exc == 0 || ' + DIM]
    for o in outs:
        e.append('verif_exc != 0 ==> (%s)' % shape_same(o))
    return e

def mats(*names):
    return ['MAT_FRESH(%s)' % n for n in names]

def vecs(*names):
    return ['__CPROVER_is_fresh(%s, sizeof(*%s)) && VEC_FRESH(%s)' % (n, n, n) for n in names]

OUT = ['O->rows', 'O->cols']
SIG3 = '(const Matrix<double> &, const Matrix<double> &, Matrix<double> &)'

F('copy', 'MatrixTools__copy', TMM, requires=mats('A', 'O'),
  ensures=['verif_exc == 0', 'O->rows == A->rows && O->cols == A->cols'], assigns=OUT,
  loops={1: L('i', 'A->rows'), 2: L('j', 'A->cols')})
F('copyUp', 'MatrixTools__copyUp', TMM, requires=mats('A', 'O'),
  # a 0-row input gives a 0-row output and no access
  ensures=['verif_exc == 0', 'O->rows == A->rows && O->cols == A->cols'], assigns=OUT,
  loops={1: L('i', 'nr - 1', inv=['nr >= 1']), 2: L('j', 'nc'), 3: L('j', 'nc')})
F('copyDown', 'MatrixTools__copyDown', TMM, requires=mats('A', 'O'),
  ensures=['verif_exc == 0', 'O->rows == A->rows && O->cols == A->cols'], assigns=OUT,
  loops={1: L('i', 'nr', inv=['i >= 1', 'nr >= 1'], dec='nr - i'), 2: L('j', 'nc'), 3: L('j', 'nc')})
F('getId', 'MatrixTools__getId', ['bpp::Matrix<double>'], requires=mats('O'),
  ensures=['verif_exc == 0', 'O->rows == n && O->cols == n'], assigns=OUT,
  loops={1: L('i', 'n'), 2: L('j', 'n')})
F('diag', 'MatrixTools__diag_vec', TD, sig='(const std::vector<double> &, Matrix<double> &)', requires=vecs('D') + mats('O'),
  ensures=['verif_exc == 0', 'O->rows == D->n && O->cols == D->n'], assigns=OUT,
  loops={1: L('i', 'n'), 2: L('j', 'n')})
F('diag', 'MatrixTools__diag_scalar', TD, sig='(const double, size_t, Matrix<double> &)', requires=mats('O'),
  ensures=['verif_exc == 0', 'O->rows == n && O->cols == n'], assigns=OUT,
  loops={1: L('i', 'n'), 2: L('j', 'n')})
F('diag', 'MatrixTools__diag_get', TD, sig='(const Matrix<double> &, std::vector<double> &)', requires=mats('M') + vecs('O') + ['M->rows <= VEC_CAP'],
  ensures=['(verif_exc != 0) == (M->rows != M->cols)', 'verif_exc == 0 || ' + DIM, 'verif_exc == 0 ==> O->n == M->rows', 'verif_exc != 0 ==> O->n == __CPROVER_old(O->n)'],
  assigns=['O->n', 'O->d', 'verif_exc'],
  loops={1: L('i', 'nc', assigns=['__CPROVER_object_whole(O->d)'])})
F('fill', 'MatrixTools__fill', ['bpp::Matrix<double>', 'double'], requires=mats('M'),
  ensures=['verif_exc == 0'], assigns=[],
  loops={1: L('i', 'M->rows'), 2: L('j', 'M->cols')})
F('fillDiag', 'MatrixTools__fillDiag', ['bpp::Matrix<double>', 'double'], requires=mats('M'),
  # x on i == j < min(nr, nc): no access outside the shape for non-square matrices
  ensures=['verif_exc == 0'], assigns=[],
  loops={1: L('i', 'M->rows')})
F('scale', 'MatrixTools__scale', ['bpp::Matrix<double>', 'double'], requires=mats('A'),
  ensures=['verif_exc == 0'], assigns=[],
  loops={1: L('i', 'A->rows'), 2: L('j', 'A->cols')})
F('mult', 'MatrixTools__mult3', TD, sig=SIG3, requires=mats('A', 'B', 'O'),
  ensures=raises('A->cols != B->rows') + ['verif_exc == 0 ==> (O->rows == A->rows && O->cols == B->cols)'],
  assigns=OUT + ['verif_exc'],
  loops={1: L('i', 'nrA'), 2: L('j', 'ncB'), 3: L('k', 'ncA')})
CPLX = '(const Matrix<double> &, const Matrix<double> &, const Matrix<double> &, const Matrix<double> &, Matrix<double> &, Matrix<double> &)'
SAMESHAPE = lambda X, Y: '(%s->rows == %s->rows && %s->cols == %s->cols)' % (X, Y, X, Y)
F('mult', 'MatrixTools__mult_cplx', TD, sig=CPLX, requires=mats('A', 'iA', 'B', 'iB', 'O', 'iO'),
  # non-conformable: ncA != nrB, or the imaginary parts are not shaped like the real parts
  ensures=raises('A->cols != B->rows || !%s || !%s' % (SAMESHAPE('iA', 'A'), SAMESHAPE('iB', 'B')), outs=('O', 'iO')) +
          ['verif_exc == 0 ==> (O->rows == A->rows && O->cols == B->cols && iO->rows == A->rows && iO->cols == B->cols)'],
  assigns=OUT + ['iO->rows', 'iO->cols', 'verif_exc'],
  loops={1: L('i', 'nrA'), 2: L('j', 'ncB'), 3: L('k', 'ncA')})
F('mult', 'MatrixTools__mult_diag', TD, sig='(const Matrix<double> &, const std::vector<double> &, const Matrix<double> &, Matrix<double> &)',
  requires=mats('A', 'B', 'O') + vecs('D'),
  ensures=raises('A->cols != B->rows || D->n != A->cols') + ['verif_exc == 0 ==> (O->rows == A->rows && O->cols == B->cols)'],
  assigns=OUT + ['verif_exc'],
  loops={1: L('i', 'nrA'), 2: L('j', 'ncB'), 3: L('k', 'ncA')})
F('mult', 'MatrixTools__mult_cplx_diag', TD, sig='(const Matrix<double> &, const Matrix<double> &, const std::vector<double> &, const std::vector<double> &, const Matrix<double> &, const Matrix<double> &, Matrix<double> &, Matrix<double> &)',
  requires=mats('A', 'iA', 'B', 'iB', 'O', 'iO') + vecs('D', 'iD'),
  ensures=raises('A->cols != B->rows || D->n != A->cols || iD->n != A->cols || !%s || !%s' % (SAMESHAPE('iA', 'A'), SAMESHAPE('iB', 'B')), outs=('O', 'iO')) +
          # both outputs get the shape of the product
          ['verif_exc == 0 ==> (O->rows == A->rows && O->cols == B->cols && iO->rows == A->rows && iO->cols == B->cols)'],
  assigns=OUT + ['iO->rows', 'iO->cols', 'verif_exc'],
  loops={1: L('i', 'nrA', assigns=['ab', 'aib']), 2: L('j', 'ncB', assigns=['ab', 'aib']), 3: L('k', 'ncA', assigns=['ab', 'aib'])}, timeout=900)
F('mult', 'MatrixTools__mult_tridiag', TD, sig='(const Matrix<double> &, const std::vector<double> &, const std::vector<double> &, const std::vector<double> &, const Matrix<double> &, Matrix<double> &)',
  requires=mats('A', 'B', 'O') + vecs('D', 'U', 'L'),
  ensures=raises('A->cols != B->rows || D->n != A->cols || U->n + 1 != A->cols || L->n + 1 != A->cols') + ['verif_exc == 0 ==> (O->rows == A->rows && O->cols == B->cols)'],
  assigns=OUT + ['verif_exc'],
  loops={1: L('i', 'nrA'), 2: L('j', 'ncB'), 3: L('k', 'ncA - 1', inv=['k >= 1', 'ncA >= 2'])})
F('add', 'MatrixTools__add', TMM, requires=mats('A', 'B'),
  # textbook conformability: same shape
  ensures=raises('A->rows != B->rows || A->cols != B->cols', outs=('A',)) + [shape_same('A')],
  assigns=['verif_exc'],
  loops={1: L('i', 'nrA'), 2: L('j', 'ncA')})
F('add', 'MatrixTools__add_scaled', ['bpp::Matrix<double>', 'bpp::Matrix<double>', 'double'], requires=mats('A', 'B') + ['__CPROVER_is_fresh(x, sizeof(double))'],
  ensures=raises('A->rows != B->rows || A->cols != B->cols', outs=('A',)) + [shape_same('A')],
  assigns=['verif_exc'],
  loops={1: L('i', 'nrA'), 2: L('j', 'ncA')})
F('transpose', 'MatrixTools__transpose', TMM, requires=mats('A', 'O'),
  ensures=['verif_exc == 0', 'O->rows == A->cols && O->cols == A->rows'], assigns=OUT,
  loops={1: L('i', 'A->cols'), 2: L('j', 'A->rows')})
F('isSquare', 'MatrixTools__isSquare', ['bpp::Matrix<double>'], requires=mats('A'),
  ensures=['__CPROVER_return_value == (A->rows == A->cols)'], assigns=[])
F('isSymmetric', 'MatrixTools__isSymmetric', ['bpp::Matrix<double>'], requires=mats('A'),
  ensures=['verif_exc == 0', 'A->rows != A->cols ==> !__CPROVER_return_value'], assigns=[],
  loops={1: L('i', 'A->cols'), 2: L('j', 'A->rows', inv=['j >= i + 1', 'i < A->cols', 'A->cols == A->rows'], dec='A->rows - j')})
F('sumElements', 'MatrixTools__sumElements', TD, requires=mats('M'),
  ensures=['verif_exc == 0'], assigns=[],
  loops={1: L('i', 'M->rows', assigns=['sum']), 2: L('j', 'M->cols', assigns=['sum'])})
F('max', 'MatrixTools__max', TD, requires=mats('m'), ensures=['verif_exc == 0'], assigns=[],
  loops={1: L('i', 'nrows', assigns=['currentMax']), 2: L('j', 'ncols', assigns=['currentMax'])})
F('min', 'MatrixTools__min', TD, requires=mats('m'), ensures=['verif_exc == 0'], assigns=[],
  loops={1: L('i', 'nrows', assigns=['currentMin']), 2: L('j', 'ncols', assigns=['currentMin'])})
F('hadamardMult', 'MatrixTools__hadamard', TD, sig=SIG3, requires=mats('A', 'B', 'O'),
  ensures=raises('A->rows != B->rows || A->cols != B->cols') + ['verif_exc == 0 ==> (O->rows == A->rows && O->cols == A->cols)'],
  assigns=OUT + ['verif_exc'],
  loops={1: L('i', 'nrA'), 2: L('j', 'ncA')})
F('hadamardMult', 'MatrixTools__hadamard_cplx', TD, sig=CPLX, requires=mats('A', 'iA', 'B', 'iB', 'O', 'iO'),
  ensures=raises('A->rows != B->rows || A->cols != B->cols || !%s || !%s' % (SAMESHAPE('iA', 'A'), SAMESHAPE('iB', 'B')), outs=('O', 'iO')) +
          ['verif_exc == 0 ==> (O->rows == A->rows && O->cols == A->cols && iO->rows == A->rows && iO->cols == A->cols)'],
  assigns=OUT + ['iO->rows', 'iO->cols', 'verif_exc'],
  loops={1: L('i', 'nrA'), 2: L('j', 'ncA')})
F('hadamardMult', 'MatrixTools__hadamard_vec', TD, sig='(const Matrix<double> &, const std::vector<double> &, Matrix<double> &, bool)', requires=mats('A', 'O') + vecs('B'),
  ensures=raises('(row && A->rows != B->n) || (!row && A->cols != B->n)') + ['verif_exc == 0 ==> (O->rows == A->rows && O->cols == A->cols)'],
  assigns=OUT + ['verif_exc'],
  loops={1: L('i', 'nrA'), 2: L('j', 'ncA'), 3: L('i', 'nrA'), 4: L('j', 'ncA')})
F('directSum', 'MatrixTools__directSum', TD, sig=SIG3, requires=mats('A', 'B', 'O') + ['A->rows <= (1UL << 62) && B->rows <= (1UL << 62) && A->cols <= (1UL << 62) && B->cols <= (1UL << 62)'],
  ensures=['verif_exc == 0', 'O->rows == A->rows + B->rows && O->cols == A->cols + B->cols'], assigns=OUT,
  loops={1: L('ia', 'nrA'), 2: L('ja', 'ncA'), 3: L('ia', 'nrA'), 4: L('jb', 'ncB'), 5: L('ib', 'nrB'), 6: L('ja', 'ncA'), 7: L('ib', 'nrB'), 8: L('jb', 'ncB')})


# ---- remaining proof units: whichMax/whichMin (result vector), pow (recursion), covar -----------------------------
F('whichMax', 'MatrixTools__whichMax', ['bpp::Matrix<double>'], requires=mats('m'),
  ensures=['verif_exc == 0', '__CPROVER_return_value.n == 2'], assigns=[],
  loops={1: L('i', 'nrows', assigns=['imax', 'jmax', 'currentMax'], inv=['(nrows == 0 || ncols == 0) ? (imax == 0 && jmax == 0) : (imax < nrows && jmax < ncols)']),
         2: L('j', 'ncols', assigns=['imax', 'jmax', 'currentMax'], inv=['i < nrows', 'imax < nrows && jmax < ncols || (imax == 0 && jmax == 0)'])})
F('whichMin', 'MatrixTools__whichMin', ['bpp::Matrix<double>'], requires=mats('m'),
  ensures=['verif_exc == 0', '__CPROVER_return_value.n == 2'], assigns=[],
  loops={1: L('i', 'nrows', assigns=['imin', 'jmin', 'currentMin']), 2: L('j', 'ncols', assigns=['imin', 'jmin', 'currentMin'])})

# ---- int instantiations of the same templates: bodies for the bounded entry-value runs ----------------------------
INT_FUNCS = []
for f in list(FUNCS):
    if f['cname'] in ('MatrixTools__max', 'MatrixTools__min', 'MatrixTools__whichMax', 'MatrixTools__whichMin'):
        continue
    g = dict(cname=f['cname'] + '_i', qname=f['qname'], targs=[t.replace('double', 'int') for t in f['targs']],
             sig=f['sig'].replace('double', 'int') if f.get('sig') else None)
    INT_FUNCS.append(g)
FUNCS += INT_FUNCS
F('pow', 'MatrixTools__pow_i', ['bpp::RowMatrix<int>'])
F('getId', 'MatrixTools__getId_R_i', ['bpp::RowMatrix<int>'])
F('copy', 'MatrixTools__copy_R_i', ['bpp::RowMatrix<int>', 'bpp::RowMatrix<int>'])
for k3 in ('kroneckerMult',):
    pass
F('kroneckerMult', 'MatrixTools__kron_i', ['int'], sig='(const Matrix<int> &, const Matrix<int> &, Matrix<int> &, bool)')
F('kroneckerMult', 'MatrixTools__kron_dim_i', ['int'], sig='(const Matrix<int> &, size_t, const int &, Matrix<int> &, bool)')
F('kroneckerMult', 'MatrixTools__kron_diag_i', ['int'], sig='(const Matrix<int> &, const Matrix<int> &, const int &, const int &, Matrix<int> &, bool)')

LEMMAS = []
REPLAY = {'re:^p_MatrixTools__': dict(adapter='c04_shapes.cpp'), 're:^b_': dict(adapter='c04_values.cpp')}
TRUSTED = ['operator()(i,j) of the abstract Matrix returns a fresh cell (element contents are not modelled in the proofs)']
ASSUMPTIONS = ['output matrices are not aliased with input matrices']
NOT_DECIDED = ['rounding behaviour of real entries; covariance values; entry values for shapes larger than the bound']

# ----------------------------------------------------------------------------------------------------------------
# Bounded entry-value runs: one run per concrete shape tuple, entries in {0..DOM}, executable Mat/Vec stubs,
# output compared with the textbook definition computed by straight-line loops over concrete indices (DESIGN.md 3.6)
# ----------------------------------------------------------------------------------------------------------------
BH = r'''
typedef int S;
#define FOR(i, n) for (unsigned long i = 0; i < (unsigned long)(n); ++i)
static S nd_e(void) { S v = nondet_int(); __CPROVER_assume(v >= 0 && v <= DOM); return v; }
static void mk_in(MatI *m, unsigned long r, unsigned long c) { m->rows = r; m->cols = c; FOR(i, MAT_B) FOR(j, MAT_B) MDP(m, i, j) = (i < r && j < c) ? nd_e() : nondet_int(); }
static void mk_out(MatI *m, unsigned long r, unsigned long c) { m->rows = r; m->cols = c; FOR(i, MAT_B) FOR(j, MAT_B) MDP(m, i, j) = nondet_int(); }
static void mk_vec(Vec_int *v, unsigned long n) { v->d = (int*)verif_new_array(VEC_BCAP, sizeof(int)); v->n = n; FOR(i, VEC_BCAP) v->d[i] = (i < n) ? nd_e() : nondet_int(); }
#define UNCHANGED(m, m0) do { __CPROVER_assert((m).rows == (m0).rows && (m).cols == (m0).cols, "input/raising case: shape unchanged"); FOR(i_, MAT_B) FOR(j_, MAT_B) __CPROVER_assert(MD(m, i_, j_) == MD(m0, i_, j_), "input/raising case: cells unchanged"); } while (0)
#define SHAPE(m, r, c) __CPROVER_assert((m).rows == (unsigned long)(r) && (m).cols == (unsigned long)(c), "output has the definitional shape")
#define RAISED_DIM() __CPROVER_assert(verif_exc == EXC_DimensionException, "non-conformable operands raise DimensionException")
#define NOT_RAISED() __CPROVER_assert(verif_exc == 0, "conformable operands do not raise")
#define ENTRY(m, i, j, v) __CPROVER_assert(MD(m, i, j) == (v), "output entry equals the textbook definition")
#define CANARY() __CPROVER_assert(0, "verif_canary reachable after call")
'''

def _b(name, text, shapes, dom=1, unwind=6, bodies=None, extra_defs=''):
    return dict(name=name, text=text, shapes=shapes, dom=dom, unwind=unwind, bodies=bodies, extra_defs=extra_defs)

def dims(tier):
    return (0, 1, 2, 3) if tier == 'thorough' else (0, 1, 2)

H = {}
H['mult3'] = r'''
void h(void) { MatI A, B, O; mk_in(&A, NRA, NCA); mk_in(&B, NRB, NCB); mk_out(&O, ORI, OCI); MatI A0 = A, B0 = B, O0 = O; verif_exc = 0;
  MatrixTools__mult3_i(&A, &B, &O);
  if (NCA != NRB) { RAISED_DIM(); UNCHANGED(O, O0); }
  else { NOT_RAISED(); SHAPE(O, NRA, NCB); FOR(i, NRA) FOR(j, NCB) { S s = 0; FOR(k, NCA) s += MD(A0, i, k) * MD(B0, k, j); ENTRY(O, i, j, s); } }
  UNCHANGED(A, A0); UNCHANGED(B, B0); CANARY(); }
'''
H['mult_diag'] = r'''
void h(void) { MatI A, B, O; Vec_int D; mk_in(&A, NRA, NCA); mk_in(&B, NRB, NCB); mk_vec(&D, ND); mk_out(&O, ORI, OCI); MatI A0 = A, B0 = B, O0 = O; verif_exc = 0;
  MatrixTools__mult_diag_i(&A, &D, &B, &O);
  if (NCA != NRB || ND != NCA) { RAISED_DIM(); UNCHANGED(O, O0); }
  else { NOT_RAISED(); SHAPE(O, NRA, NCB); FOR(i, NRA) FOR(j, NCB) { S s = 0; FOR(k, NCA) s += MD(A0, i, k) * D.d[k] * MD(B0, k, j); ENTRY(O, i, j, s); } }
  UNCHANGED(A, A0); UNCHANGED(B, B0); CANARY(); }
'''
H['mult_tridiag'] = r'''
void h(void) { MatI A, B, O; Vec_int D, U, L; mk_in(&A, NRA, NCA); mk_in(&B, NRB, NCB); mk_vec(&D, ND); mk_vec(&U, NU); mk_vec(&L, NU); mk_out(&O, ORI, OCI); MatI A0 = A, B0 = B, O0 = O; verif_exc = 0;
  MatrixTools__mult_tridiag_i(&A, &D, &U, &L, &B, &O);
  if (NCA != NRB || ND != NCA || NU + 1 != NCA) { RAISED_DIM(); UNCHANGED(O, O0); }
  else { NOT_RAISED(); SHAPE(O, NRA, NCB);
    /* T tridiagonal: T(k,k) = D[k], T(k,k+1) = U[k], T(k+1,k) = L[k] */
    FOR(i, NRA) FOR(j, NCB) { S s = 0; FOR(k, NCA) FOR(l, NCA) { S t = (k == l) ? D.d[k] : (l == k + 1) ? U.d[k] : (k == l + 1) ? L.d[l] : 0; s += MD(A0, i, k) * t * MD(B0, l, j); } ENTRY(O, i, j, s); } }
  UNCHANGED(A, A0); UNCHANGED(B, B0); CANARY(); }
'''
H['mult_cplx'] = r'''
void h(void) { MatI A, iA, B, iB, O, iO; mk_in(&A, NRA, NCA); mk_in(&iA, NRA, NCA); mk_in(&B, NRB, NCB); mk_in(&iB, NRB, NCB); mk_out(&O, ORI, OCI); mk_out(&iO, OCI, ORI);
  MatI A0 = A, iA0 = iA, B0 = B, iB0 = iB, O0 = O, iO0 = iO; verif_exc = 0;
  MatrixTools__mult_cplx_i(&A, &iA, &B, &iB, &O, &iO);
  if (NCA != NRB) { RAISED_DIM(); UNCHANGED(O, O0); UNCHANGED(iO, iO0); }
  else { NOT_RAISED(); SHAPE(O, NRA, NCB); SHAPE(iO, NRA, NCB);
    FOR(i, NRA) FOR(j, NCB) { S re = 0, im = 0; FOR(k, NCA) { re += MD(A0, i, k) * MD(B0, k, j) - MD(iA0, i, k) * MD(iB0, k, j); im += MD(A0, i, k) * MD(iB0, k, j) + MD(iA0, i, k) * MD(B0, k, j); } ENTRY(O, i, j, re); ENTRY(iO, i, j, im); } }
  UNCHANGED(A, A0); UNCHANGED(B, B0); UNCHANGED(iA, iA0); UNCHANGED(iB, iB0); CANARY(); }
'''
H['mult_cplx_diag'] = r'''
void h(void) { MatI A, iA, B, iB, O, iO; Vec_int D, iD; mk_in(&A, NRA, NCA); mk_in(&iA, NRA, NCA); mk_in(&B, NRB, NCB); mk_in(&iB, NRB, NCB); mk_vec(&D, ND); mk_vec(&iD, ND); mk_out(&O, ORI, OCI); mk_out(&iO, OCI, ORI);
  MatI A0 = A, iA0 = iA, B0 = B, iB0 = iB, O0 = O, iO0 = iO; verif_exc = 0;
  MatrixTools__mult_cplx_diag_i(&A, &iA, &D, &iD, &B, &iB, &O, &iO);
  if (NCA != NRB || ND != NCA) { RAISED_DIM(); UNCHANGED(O, O0); UNCHANGED(iO, iO0); }
  else { NOT_RAISED(); SHAPE(O, NRA, NCB); SHAPE(iO, NRA, NCB);
    /* (A + i iA) diag(D + i iD) (B + i iB) */
    FOR(i, NRA) FOR(j, NCB) { S re = 0, im = 0; FOR(k, NCA) {
        S ar = MD(A0, i, k), ai = MD(iA0, i, k), dr = D.d[k], di = iD.d[k], br = MD(B0, k, j), bi = MD(iB0, k, j);
        S xr = ar * dr - ai * di, xi = ar * di + ai * dr;
        re += xr * br - xi * bi; im += xr * bi + xi * br; } ENTRY(O, i, j, re); ENTRY(iO, i, j, im); } }
  CANARY(); }
'''
H['add'] = r'''
void h(void) { MatI A, B; mk_in(&A, NRA, NCA); mk_in(&B, NRB, NCB); MatI A0 = A, B0 = B; verif_exc = 0;
  MatrixTools__add_i(&A, &B);
  if (NRA != NRB || NCA != NCB) { RAISED_DIM(); UNCHANGED(A, A0); }
  else { NOT_RAISED(); SHAPE(A, NRA, NCA); FOR(i, NRA) FOR(j, NCA) ENTRY(A, i, j, MD(A0, i, j) + MD(B0, i, j)); }
  UNCHANGED(B, B0); CANARY(); }
'''
H['add_scaled'] = r'''
void h(void) { MatI A, B; mk_in(&A, NRA, NCA); mk_in(&B, NRB, NCB); MatI A0 = A, B0 = B; S x = nd_e(); S x0 = x; verif_exc = 0;
  MatrixTools__add_scaled_i(&A, &x, &B);
  if (NRA != NRB || NCA != NCB) { RAISED_DIM(); UNCHANGED(A, A0); }
  else { NOT_RAISED(); SHAPE(A, NRA, NCA); FOR(i, NRA) FOR(j, NCA) ENTRY(A, i, j, MD(A0, i, j) + x0 * MD(B0, i, j)); }
  UNCHANGED(B, B0); CANARY(); }
'''
H['hadamard'] = r'''
void h(void) { MatI A, B, O; mk_in(&A, NRA, NCA); mk_in(&B, NRB, NCB); mk_out(&O, ORI, OCI); MatI A0 = A, B0 = B, O0 = O; verif_exc = 0;
  MatrixTools__hadamard_i(&A, &B, &O);
  if (NRA != NRB || NCA != NCB) { RAISED_DIM(); UNCHANGED(O, O0); }
  else { NOT_RAISED(); SHAPE(O, NRA, NCA); FOR(i, NRA) FOR(j, NCA) ENTRY(O, i, j, MD(A0, i, j) * MD(B0, i, j)); }
  UNCHANGED(A, A0); UNCHANGED(B, B0); CANARY(); }
'''
H['hadamard_cplx'] = r'''
void h(void) { MatI A, iA, B, iB, O, iO; mk_in(&A, NRA, NCA); mk_in(&iA, NRA, NCA); mk_in(&B, NRB, NCB); mk_in(&iB, NRB, NCB); mk_out(&O, ORI, OCI); mk_out(&iO, OCI, ORI);
  MatI A0 = A, iA0 = iA, B0 = B, iB0 = iB, O0 = O, iO0 = iO; verif_exc = 0;
  MatrixTools__hadamard_cplx_i(&A, &iA, &B, &iB, &O, &iO);
  if (NRA != NRB || NCA != NCB) { RAISED_DIM(); UNCHANGED(O, O0); UNCHANGED(iO, iO0); }
  else { NOT_RAISED(); SHAPE(O, NRA, NCA); SHAPE(iO, NRA, NCA);
    FOR(i, NRA) FOR(j, NCA) { ENTRY(O, i, j, MD(A0, i, j) * MD(B0, i, j) - MD(iA0, i, j) * MD(iB0, i, j)); ENTRY(iO, i, j, MD(iA0, i, j) * MD(B0, i, j) + MD(A0, i, j) * MD(iB0, i, j)); } }
  CANARY(); }
'''
H['hadamard_vec'] = r'''
void h(void) { MatI A, O; Vec_int B; mk_in(&A, NRA, NCA); mk_vec(&B, ND); mk_out(&O, ORI, OCI); MatI A0 = A, O0 = O; _Bool row = ROW; verif_exc = 0;
  MatrixTools__hadamard_vec_i(&A, &B, &O, row);
  if ((row && NRA != ND) || (!row && NCA != ND)) { RAISED_DIM(); UNCHANGED(O, O0); }
  else { NOT_RAISED(); SHAPE(O, NRA, NCA); FOR(i, NRA) FOR(j, NCA) ENTRY(O, i, j, MD(A0, i, j) * (row ? B.d[i] : B.d[j])); }
  UNCHANGED(A, A0); CANARY(); }
'''
H['unary'] = r'''
void h(void) { MatI A, O; mk_in(&A, NRA, NCA); mk_out(&O, ORI, OCI); MatI A0 = A; verif_exc = 0;
  CALL;
  NOT_RAISED(); SHAPE(O, OUTR, OUTC); FOR(i, OUTR) FOR(j, OUTC) ENTRY(O, i, j, SPEC);
  UNCHANGED(A, A0); CANARY(); }
'''
H['getId'] = r'''
void h(void) { MatI O; mk_out(&O, ORI, OCI); Vec_int D; mk_vec(&D, NRA); S x = nd_e(); verif_exc = 0;
  CALL;
  NOT_RAISED(); SHAPE(O, NRA, NRA); FOR(i, NRA) FOR(j, NRA) ENTRY(O, i, j, SPEC);
  CANARY(); }
'''
H['diag_get'] = r'''
void h(void) { MatI M; Vec_int O; mk_in(&M, NRA, NCA); mk_vec(&O, ND); MatI M0 = M; unsigned long n0 = O.n; verif_exc = 0;
  MatrixTools__diag_get_i(&M, &O);
  if (NRA != NCA) { RAISED_DIM(); __CPROVER_assert(O.n == n0, "raising case: output length unchanged"); }
  else { NOT_RAISED(); __CPROVER_assert(O.n == NRA, "output has the definitional length"); FOR(i, NRA) __CPROVER_assert(O.d[i] == MD(M0, i, i), "output entry equals the textbook definition"); }
  UNCHANGED(M, M0); CANARY(); }
'''
H['inplace'] = r'''
void h(void) { MatI M; mk_in(&M, NRA, NCA); MatI M0 = M; S x = nd_e(), y = nd_e(); verif_exc = 0;
  CALL;
  NOT_RAISED(); SHAPE(M, NRA, NCA); FOR(i, NRA) FOR(j, NCA) ENTRY(M, i, j, SPEC);
  CANARY(); }
'''
H['scalar_result'] = r'''
void h(void) { MatI M; mk_in(&M, NRA, NCA); MatI M0 = M; verif_exc = 0;
  RTYPE r = CALL;
  NOT_RAISED(); SPECBLOCK
  UNCHANGED(M, M0); CANARY(); }
'''
H['directSum'] = r'''
void h(void) { MatI A, B, O; mk_in(&A, NRA, NCA); mk_in(&B, NRB, NCB); mk_out(&O, ORI, OCI); MatI A0 = A, B0 = B; verif_exc = 0;
  MatrixTools__directSum_i(&A, &B, &O);
  NOT_RAISED(); SHAPE(O, NRA + NRB, NCA + NCB);
  FOR(i, NRA + NRB) FOR(j, NCA + NCB) ENTRY(O, i, j, (i < NRA && j < NCA) ? MD(A0, i, j) : (i >= NRA && j >= NCA) ? MD(B0, i - NRA, j - NCA) : 0);
  UNCHANGED(A, A0); UNCHANGED(B, B0); CANARY(); }
'''
H['kron'] = r'''
void h(void) { MatI A, B, O; mk_in(&A, NRA, NCA); mk_in(&B, NRB, NCB); mk_out(&O, ORI, OCI); MatI A0 = A, B0 = B; S dA = nd_e(), dB = nd_e(); verif_exc = 0;
  CALL;
  NOT_RAISED(); SHAPE(O, NRA * NRB, NCA * NCB);
  FOR(ia, NRA) FOR(ja, NCA) FOR(ib, NRB) FOR(jb, NCB) ENTRY(O, ia * NRB + ib, ja * NCB + jb, SPEC);
  UNCHANGED(A, A0); UNCHANGED(B, B0); CANARY(); }
'''
H['pow'] = r'''
static void mm(const MatI *X, const MatI *Y, MatI *Z, unsigned long n) { FOR(i, n) FOR(j, n) { S s = 0; FOR(k, n) s += MDP(X, i, k) * MDP(Y, k, j); MDP(Z, i, j) = s; } }
void h(void) { MatI A, O; mk_in(&A, NRA, NCA); mk_out(&O, ORI, OCI); MatI A0 = A, O0 = O; verif_exc = 0;
  MatrixTools__pow_i(&A, P, &O);
  if (NRA != NCA) { RAISED_DIM(); UNCHANGED(O, O0); }
  else { NOT_RAISED(); SHAPE(O, NRA, NRA);
    MatI R, T; FOR(i, NRA) FOR(j, NRA) MD(R, i, j) = (i == j) ? 1 : 0;     /* A^0 = I */
    FOR(q, P) { mm(&R, &A0, &T, NRA); FOR(i, NRA) FOR(j, NRA) MD(R, i, j) = MD(T, i, j); }
    FOR(i, NRA) FOR(j, NRA) ENTRY(O, i, j, MD(R, i, j)); }
  UNCHANGED(A, A0); CANARY(); }
'''

def _defs(**kw):
    return ''.join('#define %s %s\n' % (k, v) for k, v in kw.items())

def generate_jobs(unit, tier):
    jobs = []
    D = dims(tier)
    ints = [f['cname'] for f in FUNCS if f['cname'].endswith('_i')]
    outs0 = [(MATB, MATB)] if tier != 'thorough' else [(MATB, MATB), (0, 0)]
    def J(fn, tag, defs, text, dom=1, unwind=None, extra_bodies=()):
        jid = 'b_%s_%s' % (fn, tag)
        jobs.append(dict(id=jid, kind='bounded', mode='bounded', entry='h', bodies=ints + list(extra_bodies),
                         harness=BH + text, unwind=unwind or (MATB + 2), timeout=300,
                         defs='#define MAT_B %d\n#define VEC_BCAP %d\n#define DOM %d\n%s' % (MATB, MATB, dom, defs),
                         bound='concrete shapes %s; entries in {0..%d}; cells outside the shape and the initial output are arbitrary; unwinding %d' % (tag, dom, unwind or (MATB + 2)),
                         doc='%s entry values against the textbook definition' % fn))
    for (ori, oci) in outs0:
        for nra in D:
            for nca in D:
                t = 'A%dx%d_O%dx%d' % (nra, nca, ori, oci)
                base = dict(NRA=nra, NCA=nca, ORI=ori, OCI=oci)
                # unary routines
                for fn, call, outr, outc, spec in (
                        ('copy', 'MatrixTools__copy_i(&A, &O)', 'NRA', 'NCA', 'MD(A0, i, j)'),
                        ('transpose', 'MatrixTools__transpose_i(&A, &O)', 'NCA', 'NRA', 'MD(A0, j, i)'),
                        ('copyUp', 'MatrixTools__copyUp_i(&A, &O)', 'NRA', 'NCA', '(i + 1 < NRA ? MD(A0, i + 1, j) : 0)'),
                        ('copyDown', 'MatrixTools__copyDown_i(&A, &O)', 'NRA', 'NCA', '(i >= 1 ? MD(A0, i - 1, j) : 0)')):
                    J(fn, t, _defs(CALL=call, OUTR=outr, OUTC=outc, SPEC=spec, **base), H['unary'])
                for fn, call, spec in (
                        ('fill', 'MatrixTools__fill_i(&M, x)', 'x'),
                        ('fillDiag', 'MatrixTools__fillDiag_i(&M, x)', '(i == j ? x : MD(M0, i, j))'),
                        ('scale', 'MatrixTools__scale_i(&M, x, y)', '(x * MD(M0, i, j) + y)')):
                    if ori == MATB:
                        J(fn, 'M%dx%d' % (nra, nca), _defs(CALL=call, SPEC=spec, **base), H['inplace'])
                if ori == MATB:
                    J('sumElements', 'M%dx%d' % (nra, nca), _defs(RTYPE='S', CALL='MatrixTools__sumElements_i(&M)',
                      SPECBLOCK='{ S s = 0; FOR(i, NRA) FOR(j, NCA) s += MD(M0, i, j); __CPROVER_assert(r == s, "sum of the elements"); }', **base), H['scalar_result'])
                    J('isSymmetric', 'M%dx%d' % (nra, nca), _defs(RTYPE='_Bool', CALL='MatrixTools__isSymmetric_i(&M)',
                      SPECBLOCK='{ _Bool s = (NRA == NCA); if (s) FOR(i, NRA) FOR(j, NCA) s = s && (MD(M0, i, j) == MD(M0, j, i)); __CPROVER_assert(r == s, "isSymmetric by definition"); }', **base), H['scalar_result'])
                    for nd in D:
                        J('diag_get', 'M%dx%d_v%d' % (nra, nca, nd), _defs(ND=nd, **base), H['diag_get'])
                for nd in D:
                    for row in (0, 1):
                        J('hadamard_vec', t + '_v%d_row%d' % (nd, row), _defs(ND=nd, ROW=row, **base), H['hadamard_vec'])
                # binary routines
                for nrb in D:
                    for ncb in D:
                        tb = 'A%dx%d_B%dx%d_O%dx%d' % (nra, nca, nrb, ncb, ori, oci)
                        bb = dict(NRB=nrb, NCB=ncb, **base)
                        if ori == MATB:
                            J('add', tb, _defs(**bb), H['add'])
                            J('add_scaled', tb, _defs(**bb), H['add_scaled'])
                        J('hadamard', tb, _defs(**bb), H['hadamard'])
                        J('hadamard_cplx', tb, _defs(**bb), H['hadamard_cplx'])
                        J('directSum', tb, _defs(**bb), H['directSum']) if nra + nrb <= MATB and nca + ncb <= MATB else None
                        J('mult3', tb, _defs(**bb), H['mult3'])
                        J('mult_cplx', tb, _defs(**bb), H['mult_cplx'])
                        if nra * nrb <= MATB and nca * ncb <= MATB:
                            J('kron', tb, _defs(CALL='MatrixTools__kron_i(&A, &B, &O, 1)', SPEC='(MD(A0, ia, ja) * MD(B0, ib, jb))', **bb), H['kron'])
                            J('kron_diag', tb, _defs(CALL='MatrixTools__kron_diag_i(&A, &B, &dA, &dB, &O, 1)', SPEC='((ia == ja ? dA : MD(A0, ia, ja)) * (ib == jb ? dB : MD(B0, ib, jb)))', **bb), H['kron'])
                            if nrb == ncb:
                                J('kron_dim', tb, _defs(CALL='MatrixTools__kron_dim_i(&A, NRB, &dB, &O, 1)', SPEC='(MD(A0, ia, ja) * (ib == jb ? dB : 0))', **bb), H['kron'])
                        for nd in sorted({nca, (nca + 1) % (max(D) + 1)}):
                            J('mult_diag', tb + '_v%d' % nd, _defs(ND=nd, **bb), H['mult_diag'])
                            J('mult_cplx_diag', tb + '_v%d' % nd, _defs(ND=nd, **bb), H['mult_cplx_diag'])
                            for nu in sorted({max(nca, 1) - 1, nca}):
                                J('mult_tridiag', tb + '_v%d_u%d' % (nd, nu), _defs(ND=nd, NU=nu, **bb), H['mult_tridiag'])
                for pw in (0, 1, 2, 3, 4) if nra == nca or tier == 'thorough' else (2,):
                    J('pow', t + '_p%d' % pw, _defs(P=pw, **base), H['pow'], dom=2, unwind=MATB + 3)
        for n in D:
            for fn, call, spec in (('getId', 'MatrixTools__getId_i(NRA, &O)', '(i == j ? 1 : 0)'),
                                   ('diag_vec', 'MatrixTools__diag_vec_i(&D, &O)', '(i == j ? D.d[i] : 0)'),
                                   ('diag_scalar', 'MatrixTools__diag_scalar_i(x, NRA, &O)', '(i == j ? x : 0)')):
                J(fn, 'n%d_O%dx%d' % (n, ori, oci), _defs(CALL=call, SPEC=spec, NRA=n, NCA=n, ORI=ori, OCI=oci), H['getId'])
    return jobs
MATB = 4
