"""C01 - a constrained parameter never holds a value its constraint rejects (DESIGN.md section 4, C01)."""
PROPERTY = 'C01'
LEVEL = 'proof'

TUS = {
    'constraints': dict(src='#include <Bpp/Numeric/Constraints.h>\n', filter='bpp::IntervalConstraint'),
}

IC = 'bpp::IntervalConstraint'
CI = 'bpp::ConstraintInterface'

CFG = dict(
    types={},
    plain={IC},
    rename={
        (IC, 'operator<', 1, 'bool (double) const'): 'IntervalConstraint__op_lt_d',
        (IC, 'operator>', 1, 'bool (double) const'): 'IntervalConstraint__op_gt_d',
        (IC, 'operator<=', 1, 'bool (double) const'): 'IntervalConstraint__op_le_d',
        (IC, 'operator>=', 1, 'bool (double) const'): 'IntervalConstraint__op_ge_d',
        (IC, 'operator<=', 1, 'bool (const bpp::IntervalConstraint &) const'): 'IntervalConstraint__op_le_I',
    },
    free={('MINF',): 'NumConstants__MINF', ('PINF',): 'NumConstants__PINF', ('TINY',): 'NumConstants__TINY'},
    ghost_fields={CI: 'int verif_kind;'},
    ctor_tag={IC: 'self->verif_kind = KIND_IntervalConstraint;'},
    throws={'DYNCASTREF__IntervalConstraint'},
)

STRUCTS = [CI, IC]

PRE_STRUCTS = r'''
enum { KIND_other = 0, KIND_IntervalConstraint = 1 };
'''

PRELUDE = r'''
/* NumConstants (stubs: PINF/MINF are computed with std::log(0) in the real code; TINY is 1e-12) */
static inline double NumConstants__PINF(void) { return VERIF_PINF; }
static inline double NumConstants__MINF(void) { return VERIF_MINF; }
static inline double NumConstants__TINY(void) { return 1e-12; }

/* dynamic_cast over the ghost type tag */
#define DYNCAST__IntervalConstraint(p) (((p) != 0 && ((const ConstraintInterface*)(p))->verif_kind == KIND_IntervalConstraint) ? (IntervalConstraint*)(p) : (IntervalConstraint*)0)
static inline IntervalConstraint* DYNCASTREF__IntervalConstraint(const ConstraintInterface* p) {
  if (p->verif_kind == KIND_IntervalConstraint) return (IntervalConstraint*)p;
  verif_exc = EXC_std_bad_cast; return (IntervalConstraint*)0; }

#include "spec_C01.h"
#define IC_VALID(I) (!VERIF_ISNAN(LB(I)) && !VERIF_ISNAN(UB(I)) && VERIF_ISFINITE((I)->precision_) && (I)->precision_ >= 0 && (I)->verif_kind == KIND_IntervalConstraint)
#define MEM_OLD(I, v) (((v) > __CPROVER_old(LB(I)) || (__CPROVER_old(IL(I)) && (v) == __CPROVER_old(LB(I)))) && ((v) < __CPROVER_old(UB(I)) || (__CPROVER_old(IU(I)) && (v) == __CPROVER_old(UB(I)))))
#define IC_FRESH(I) __CPROVER_is_fresh(I, sizeof(IntervalConstraint))
#define SAME_IC(a, b) (LB(a) == LB(b) && UB(a) == UB(b) && IL(a) == IL(b) && IU(a) == IU(b) && (a)->precision_ == (b)->precision_)
double verif_gv; /* ghost value, universally quantified */
'''

def getter(name, field):
    return dict(cname='IntervalConstraint__' + name, qname=IC + '::' + name,
                requires=['IC_FRESH(self)', 'IC_VALID(self)'], ensures=['__CPROVER_return_value == self->%s' % field], assigns=[])

FUNCS = [
    getter('getLowerBound', 'lowerBound_'),
    getter('getUpperBound', 'upperBound_'),
    getter('getPrecision', 'precision_'),
    dict(cname='IntervalConstraint__strictLowerBound', qname=IC + '::strictLowerBound',
         requires=['IC_FRESH(self)'], ensures=['__CPROVER_return_value == !IL(self)'], assigns=[]),
    dict(cname='IntervalConstraint__strictUpperBound', qname=IC + '::strictUpperBound',
         requires=['IC_FRESH(self)'], ensures=['__CPROVER_return_value == !IU(self)'], assigns=[]),
    dict(cname='IntervalConstraint__finiteLowerBound', qname=IC + '::finiteLowerBound',
         requires=['IC_FRESH(self)', 'IC_VALID(self)'], ensures=['__CPROVER_return_value == (LB(self) != VERIF_MINF)'], assigns=[]),
    dict(cname='IntervalConstraint__finiteUpperBound', qname=IC + '::finiteUpperBound',
         requires=['IC_FRESH(self)', 'IC_VALID(self)'], ensures=['__CPROVER_return_value == (UB(self) != VERIF_PINF)'], assigns=[]),
    dict(cname='IntervalConstraint__isCorrect', qname=IC + '::isCorrect',
         requires=['IC_FRESH(self)', 'IC_VALID(self)'],
         ensures=['__CPROVER_return_value == MEM(self, value)'], assigns=[]),
    dict(cname='IntervalConstraint__includes', qname=IC + '::includes',
         requires=['IC_FRESH(self)', 'IC_VALID(self)'],
         ensures=['__CPROVER_return_value == (MEM_LOW(self, min) && MEM_UP(self, max))'], assigns=[]),
    dict(cname='IntervalConstraint__op_lt_d', qname=IC + '::operator<', sig='bool (double) const',
         requires=['IC_FRESH(self)', 'IC_VALID(self)', '!VERIF_ISNAN(value)'],
         # the whole interval lies strictly below value
         ensures=['__CPROVER_return_value == (UB(self) < value || (!IU(self) && UB(self) == value))'], assigns=[]),
    dict(cname='IntervalConstraint__op_gt_d', qname=IC + '::operator>', sig='bool (double) const',
         requires=['IC_FRESH(self)', 'IC_VALID(self)', '!VERIF_ISNAN(value)'],
         ensures=['__CPROVER_return_value == (LB(self) > value || (!IL(self) && LB(self) == value))'], assigns=[]),
    dict(cname='IntervalConstraint__op_le_d', qname=IC + '::operator<=', sig='bool (double) const',
         requires=['IC_FRESH(self)', 'IC_VALID(self)', '!VERIF_ISNAN(value)'],
         ensures=['__CPROVER_return_value == (UB(self) <= value)'], assigns=[]),
    dict(cname='IntervalConstraint__op_ge_d', qname=IC + '::operator>=', sig='bool (double) const',
         requires=['IC_FRESH(self)', 'IC_VALID(self)', '!VERIF_ISNAN(value)'],
         ensures=['__CPROVER_return_value == (LB(self) >= value)'], assigns=[]),
    dict(cname='IntervalConstraint__getLimit', qname=IC + '::getLimit',
         requires=['IC_FRESH(self)', 'IC_VALID(self)', '!VERIF_ISNAN(value)', 'LB(self) <= UB(self)'],
         ensures=['MEM(self, value) ==> __CPROVER_return_value == value',
                  '(!MEM(self, value) && value <= LB(self)) ==> __CPROVER_return_value == LB(self)',
                  '(!MEM(self, value) && value >= UB(self) && !(value <= LB(self))) ==> __CPROVER_return_value == UB(self)'],
         assigns=[]),
    dict(cname='IntervalConstraint__getAcceptedLimit', qname=IC + '::getAcceptedLimit',
         requires=['IC_FRESH(self)', 'IC_VALID(self)', '!VERIF_ISNAN(value)', 'LB(self) <= UB(self)'],
         ensures=['MEM(self, value) ==> __CPROVER_return_value == value',
                  '(!MEM(self, value) && value <= LB(self)) ==> __CPROVER_return_value == (IL(self) ? LB(self) : LB(self) + self->precision_)',
                  '(!MEM(self, value) && value >= UB(self) && !(value <= LB(self))) ==> __CPROVER_return_value == (IU(self) ? UB(self) : UB(self) - self->precision_)'],
         assigns=[]),
    dict(cname='IntervalConstraint__isEmpty', qname=IC + '::isEmpty',
         requires=['IC_FRESH(self)', 'IC_VALID(self)'],
         # emptiness is reported iff no real is accepted (equal infinite bounds are left unspecified)
         ensures=['SPEC_EMPTY_DEFINED(self) ==> (__CPROVER_return_value == SPEC_EMPTY(self))',
                  '__CPROVER_return_value ==> !MEM(self, verif_gv)'],
         harness_pre=['verif_gv = nondet_double();'], mirror={'self': IC},
         assigns=[]),
    dict(cname='IntervalConstraint__ctor_5', qname=IC + '::IntervalConstraint', sig='void (double, double, bool, bool, double)',
         requires=['IC_FRESH(self)', '!VERIF_ISNAN(lowerBound) && !VERIF_ISNAN(upperBound) && !VERIF_ISNAN(precision)'],
         ensures=['LB(self) == lowerBound && UB(self) == upperBound && IL(self) == inclLower && IU(self) == inclUpper',
                  'self->precision_ == precision && self->verif_kind == KIND_IntervalConstraint'],
         assigns=['*self']),
    dict(cname='IntervalConstraint__ctor_4', qname=IC + '::IntervalConstraint', sig='void (bool, double, bool, double)',
         requires=['IC_FRESH(self)', '!VERIF_ISNAN(bound) && !VERIF_ISNAN(precision)'],
         # one finite end as given, the infinite end open
         ensures=['isPositive ==> (LB(self) == bound && IL(self) == incl && UB(self) == VERIF_PINF && !IU(self))',
                  '!isPositive ==> (UB(self) == bound && IU(self) == incl && LB(self) == VERIF_MINF && !IL(self))',
                  'self->verif_kind == KIND_IntervalConstraint'],
         assigns=['*self']),
    dict(cname='IntervalConstraint__ctor_0', qname=IC + '::IntervalConstraint', sig='void ()',
         requires=['IC_FRESH(self)'],
         ensures=['LB(self) == VERIF_MINF && UB(self) == VERIF_PINF && IL(self) && IU(self) && self->precision_ == 1e-12',
                  'self->verif_kind == KIND_IntervalConstraint'],
         assigns=['*self']),
    dict(cname='IntervalConstraint__op_and', qname=IC + '::operator&',
         requires=['IC_FRESH(self)', 'IC_VALID(self)', '__CPROVER_is_fresh(c, sizeof(IntervalConstraint))',
                   'c->verif_kind == KIND_IntervalConstraint ==> IC_VALID((IntervalConstraint*)c)'],
         ensures=['c->verif_kind != KIND_IntervalConstraint ==> __CPROVER_return_value == 0',
                  'c->verif_kind == KIND_IntervalConstraint ==> (__CPROVER_return_value != 0 && __CPROVER_is_fresh(__CPROVER_return_value, sizeof(IntervalConstraint)))',
                  # the intersection accepts exactly the values both accept
                  'c->verif_kind == KIND_IntervalConstraint ==> (MEM((IntervalConstraint*)__CPROVER_return_value, verif_gv) == (MEM(self, verif_gv) && MEM((IntervalConstraint*)c, verif_gv)))',
                  'c->verif_kind == KIND_IntervalConstraint ==> ((IntervalConstraint*)__CPROVER_return_value)->precision_ == (self->precision_ > ((IntervalConstraint*)c)->precision_ ? self->precision_ : ((IntervalConstraint*)c)->precision_)',
                  'c->verif_kind == KIND_IntervalConstraint ==> ((IntervalConstraint*)__CPROVER_return_value)->verif_kind == KIND_IntervalConstraint'],
         harness_pre=['verif_gv = nondet_double();'], mirror={'self': IC, 'c': IC},
         assigns=[]),
    dict(cname='IntervalConstraint__op_andeq', qname=IC + '::operator&=',
         requires=['IC_FRESH(self)', 'IC_VALID(self)', '__CPROVER_is_fresh(c, sizeof(IntervalConstraint))',
                   'c->verif_kind == KIND_IntervalConstraint ==> IC_VALID((IntervalConstraint*)c)'],
         ensures=['__CPROVER_return_value == self', 'verif_exc == 0',
                  'c->verif_kind == KIND_IntervalConstraint ==> (MEM(self, verif_gv) == (MEM_OLD(self, verif_gv) && MEM((IntervalConstraint*)c, verif_gv)))',
                  'c->verif_kind == KIND_IntervalConstraint ==> self->precision_ == (__CPROVER_old(self->precision_) > ((IntervalConstraint*)c)->precision_ ? __CPROVER_old(self->precision_) : ((IntervalConstraint*)c)->precision_)',
                  'c->verif_kind != KIND_IntervalConstraint ==> (LB(self) == __CPROVER_old(LB(self)) && UB(self) == __CPROVER_old(UB(self)) && IL(self) == __CPROVER_old(IL(self)) && IU(self) == __CPROVER_old(IU(self)) && self->precision_ == __CPROVER_old(self->precision_))',
                  'self->verif_kind == KIND_IntervalConstraint'],
         harness_pre=['verif_gv = nondet_double();'], mirror={'self': IC, 'c': IC},
         assigns=['*self', 'verif_exc', 'verif_exc_caught']),
]

LEMMAS = []
REPLAY = {c: dict(adapter='c01_interval.cpp') for c in
          ['IntervalConstraint__isEmpty', 'IntervalConstraint__op_and', 'IntervalConstraint__op_andeq', 'IntervalConstraint__isCorrect',
           'IntervalConstraint__includes', 'IntervalConstraint__getLimit', 'IntervalConstraint__getAcceptedLimit']}

TRUSTED = ['NumConstants::PINF/MINF/TINY modelled as +inf, -inf, 1e-12 (the real code computes the infinities with std::log(0))',
           'dynamic_cast modelled by a ghost type tag set by the extracted constructors']
ASSUMPTIONS = ['interval bounds and precision are not NaN (the quantifier lists finite, equal and infinite bounds)']
NOT_DECIDED = []
