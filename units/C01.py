"""C01 - a constrained parameter never holds a value its constraint rejects (DESIGN.md section 4, C01)."""
PROPERTY = 'C01'
LEVEL = 'proof'

TUS = {
    'constraints': dict(src='#include <Bpp/Numeric/Constraints.h>\n', filter='bpp::IntervalConstraint'),
    'param': dict(src='#include "/repo/src/Bpp/Numeric/Parameter.cpp"\n', filter='bpp::Parameter', flags=['-I/repo/src/Bpp/Numeric']),
    'autoparam': dict(src='#include "/repo/src/Bpp/Numeric/AutoParameter.cpp"\n', filter='bpp::AutoParameter', flags=['-I/repo/src/Bpp/Numeric']),
}
PA = 'bpp::Parameter'
AP = 'bpp::AutoParameter'
PE = 'bpp::ParameterEvent'
VL = 'std::vector<std::shared_ptr<bpp::ParameterListener>>'

IC = 'bpp::IntervalConstraint'
CI = 'bpp::ConstraintInterface'

CFG = dict(
    types={},
    plain={IC, PE},
    rename={
        (IC, 'operator<', 1, 'bool (double) const'): 'IntervalConstraint__op_lt_d',
        (IC, 'operator>', 1, 'bool (double) const'): 'IntervalConstraint__op_gt_d',
        (IC, 'operator<=', 1, 'bool (double) const'): 'IntervalConstraint__op_le_d',
        (IC, 'operator>=', 1, 'bool (double) const'): 'IntervalConstraint__op_ge_d',
        (IC, 'operator<=', 1, 'bool (const bpp::IntervalConstraint &) const'): 'IntervalConstraint__op_le_I',
    },
    free={('MINF',): 'NumConstants__MINF', ('PINF',): 'NumConstants__PINF', ('TINY',): 'NumConstants__TINY',
          ('abs', 'double (double)'): 'verif_fabs'},
    range_for={VL: ('Vec_p_ParameterListener__size', 'Vec_p_ParameterListener__op_index')},
    drop={'OutputStream__op_shl', 'OutputStream__endLine'},
    ghost_fields={CI: 'int verif_kind;'},
    ctor_tag={IC: 'self->verif_kind = KIND_IntervalConstraint;'},
    throws={'DYNCASTREF__IntervalConstraint'},
    consts={},
)

STRUCTS = [CI, IC, PA, PE, AP]

PRE_STRUCTS = r'''
#include "str.h"
#include "vec.h"
static inline double verif_fabs(double x) { return __CPROVER_fabs(x); }
enum { KIND_other = 0, KIND_IntervalConstraint = 1 };
typedef struct ParameterListener ParameterListener;
typedef struct OutputStream OutputStream;
VEC_DECL(ParameterListener*, Vec_p_ParameterListener)
'''

PRELUDE = r'''
/* NumConstants (stubs: PINF/MINF are computed with std::log(0) in the real code; TINY is 1e-12) */
static inline double NumConstants__PINF(void) { return VERIF_PINF; }
static inline double NumConstants__MINF(void) { return VERIF_MINF; }
static inline double NumConstants__TINY(void) { return 1e-12; }

/* dynamic_cast over the ghost type tag */
#define DYNCAST__IntervalConstraint(p) (((p) != 0 && ((const ConstraintInterface*)(p))->verif_kind == KIND_IntervalConstraint) ? (IntervalConstraint*)(p) : (IntervalConstraint*)0)
static inline IntervalConstraint* DYNCASTREF__IntervalConstraint(const ConstraintInterface* p) {
  if (p->verif_kind == KIND_IntervalConstraint) return (IntervalConstraint*)p;
  verif_exc = EXC_std_bad_cast; return (IntervalConstraint*)0; }

#include "spec_C01.h"
#define IC_VALID(I) (!VERIF_ISNAN(LB(I)) && !VERIF_ISNAN(UB(I)) && VERIF_ISFINITE((I)->precision_) && (I)->precision_ >= 0 && (I)->verif_kind == KIND_IntervalConstraint)
#define MEM_OLD(I, v) (((v) > __CPROVER_old(LB(I)) || (__CPROVER_old(IL(I)) && (v) == __CPROVER_old(LB(I)))) && ((v) < __CPROVER_old(UB(I)) || (__CPROVER_old(IU(I)) && (v) == __CPROVER_old(UB(I)))))
#define IC_FRESH(I) __CPROVER_is_fresh(I, sizeof(IntervalConstraint))
#define SAME_IC(a, b) (LB(a) == LB(b) && UB(a) == UB(b) && IL(a) == IL(b) && IU(a) == IU(b) && (a)->precision_ == (b)->precision_)
double verif_gv; /* ghost value, universally quantified */

/* ---- Parameter ---- */
/* value semantics of the members that do not matter for C01: shallow copies */
static inline void Str__ctor_copy(Str *s, const Str *o) { *s = *o; }
static inline Str *Str__op_assign(Str *s, const Str *o) { *s = *o; return s; }
static inline void Vec_p_ParameterListener__ctor_copy(Vec_p_ParameterListener *s, const Vec_p_ParameterListener *o) { *s = *o; }
static inline Vec_p_ParameterListener *Vec_p_ParameterListener__op_assign(Vec_p_ParameterListener *s, const Vec_p_ParameterListener *o) { *s = *o; return s; }

/* interface contract of ConstraintInterface: acceptance is a pure function of (constraint state, value).
   For the interval class it is the contract proved for IntervalConstraint::isCorrect (job p_IntervalConstraint__isCorrect);
   for every other class it is an uninterpreted function of the object identity and the value. */
_Bool __CPROVER_uninterpreted_accepts(const void *, double);
double __CPROVER_uninterpreted_limit(const void *, double);
#define CI_IS_IC(c) ((c)->verif_kind == KIND_IntervalConstraint)
#define CI_ACCEPTS(c, v) (CI_IS_IC(c) ? MEM((const IntervalConstraint*)(c), v) : __CPROVER_uninterpreted_accepts(c, v))
#define CI_OK(c) ((c) == 0 || (__CPROVER_is_fresh(c, sizeof(IntervalConstraint)) && (CI_IS_IC(c) ==> IC_VALID((const IntervalConstraint*)(c)))))
_Bool ConstraintInterface__isCorrect(const ConstraintInterface *c, double v)
  __CPROVER_requires(c != 0)
  __CPROVER_ensures(__CPROVER_return_value == CI_ACCEPTS(c, v))
  __CPROVER_assigns();
#define IC_ACCLIMIT(I, v) (MEM(I, v) ? (v) : ((v) <= LB(I) ? (IL(I) ? LB(I) : LB(I) + PREC(I)) : (IU(I) ? UB(I) : UB(I) - PREC(I))))
double ConstraintInterface__getAcceptedLimit(const ConstraintInterface *c, double v)
  __CPROVER_requires(c != 0)
  __CPROVER_ensures((CI_IS_IC(c) && LB((const IntervalConstraint*)c) <= UB((const IntervalConstraint*)c) && !VERIF_ISNAN(v)) ==> __CPROVER_return_value == IC_ACCLIMIT((const IntervalConstraint*)c, v))
  __CPROVER_assigns();
/* listeners: callbacks do not write the notifying parameter (assumption) */
void ParameterListener__parameterValueChanged(ParameterListener *l, ParameterEvent *e) __CPROVER_requires(1) __CPROVER_ensures(1) __CPROVER_assigns();
void ParameterListener__parameterNameChanged(ParameterListener *l, ParameterEvent *e) __CPROVER_requires(1) __CPROVER_ensures(1) __CPROVER_assigns();

/* the class invariant of C01 */
#define P_INV(p) ((p)->constraint_ == 0 || CI_ACCEPTS((p)->constraint_, (p)->value_))
#define P_OK(p, T) (__CPROVER_is_fresh(p, sizeof(T)) && VEC_FRESH(&(p)->listeners_) && CI_OK((p)->constraint_) && !VERIF_ISNAN((p)->precision_) && (p)->precision_ >= 0 && !VERIF_ISNAN((p)->value_))
#define P_SAME(p) ((p)->value_ == __CPROVER_old((p)->value_) && (p)->constraint_ == __CPROVER_old((p)->constraint_) && (p)->precision_ == __CPROVER_old((p)->precision_))
'''

STUB_CONTRACTS = {'ConstraintInterface__isCorrect', 'ConstraintInterface__getAcceptedLimit',
                  'ParameterListener__parameterValueChanged', 'ParameterListener__parameterNameChanged'}


def getter(name, field):
    return dict(cname='IntervalConstraint__' + name, qname=IC + '::' + name,
                requires=['IC_FRESH(self)', 'IC_VALID(self)'], ensures=['__CPROVER_return_value == self->%s' % field], assigns=[])

FUNCS = [
    getter('getLowerBound', 'lowerBound_'),
    getter('getUpperBound', 'upperBound_'),
    getter('getPrecision', 'precision_'),
    dict(cname='IntervalConstraint__strictLowerBound', qname=IC + '::strictLowerBound',
         requires=['IC_FRESH(self)'], ensures=['__CPROVER_return_value == !IL(self)'], assigns=[]),
    dict(cname='IntervalConstraint__strictUpperBound', qname=IC + '::strictUpperBound',
         requires=['IC_FRESH(self)'], ensures=['__CPROVER_return_value == !IU(self)'], assigns=[]),
    dict(cname='IntervalConstraint__finiteLowerBound', qname=IC + '::finiteLowerBound',
         requires=['IC_FRESH(self)', 'IC_VALID(self)'], ensures=['__CPROVER_return_value == (LB(self) != VERIF_MINF)'], assigns=[]),
    dict(cname='IntervalConstraint__finiteUpperBound', qname=IC + '::finiteUpperBound',
         requires=['IC_FRESH(self)', 'IC_VALID(self)'], ensures=['__CPROVER_return_value == (UB(self) != VERIF_PINF)'], assigns=[]),
    dict(cname='IntervalConstraint__isCorrect', qname=IC + '::isCorrect',
         requires=['IC_FRESH(self)', 'IC_VALID(self)'],
         ensures=['__CPROVER_return_value == MEM(self, value)'], assigns=[]),
    dict(cname='IntervalConstraint__includes', qname=IC + '::includes',
         requires=['IC_FRESH(self)', 'IC_VALID(self)'],
         ensures=['__CPROVER_return_value == (MEM_LOW(self, min) && MEM_UP(self, max))'], assigns=[]),
    dict(cname='IntervalConstraint__op_lt_d', qname=IC + '::operator<', sig='bool (double) const',
         requires=['IC_FRESH(self)', 'IC_VALID(self)', '!VERIF_ISNAN(value)'],
         # the whole interval lies strictly below value
         ensures=['__CPROVER_return_value == (UB(self) < value || (!IU(self) && UB(self) == value))'], assigns=[]),
    dict(cname='IntervalConstraint__op_gt_d', qname=IC + '::operator>', sig='bool (double) const',
         requires=['IC_FRESH(self)', 'IC_VALID(self)', '!VERIF_ISNAN(value)'],
         ensures=['__CPROVER_return_value == (LB(self) > value || (!IL(self) && LB(self) == value))'], assigns=[]),
    dict(cname='IntervalConstraint__op_le_d', qname=IC + '::operator<=', sig='bool (double) const',
         requires=['IC_FRESH(self)', 'IC_VALID(self)', '!VERIF_ISNAN(value)'],
         ensures=['__CPROVER_return_value == (UB(self) <= value)'], assigns=[]),
    dict(cname='IntervalConstraint__op_ge_d', qname=IC + '::operator>=', sig='bool (double) const',
         requires=['IC_FRESH(self)', 'IC_VALID(self)', '!VERIF_ISNAN(value)'],
         ensures=['__CPROVER_return_value == (LB(self) >= value)'], assigns=[]),
    dict(cname='IntervalConstraint__getLimit', qname=IC + '::getLimit',
         requires=['IC_FRESH(self)', 'IC_VALID(self)', '!VERIF_ISNAN(value)', 'LB(self) <= UB(self)'],
         ensures=['MEM(self, value) ==> __CPROVER_return_value == value',
                  '(!MEM(self, value) && value <= LB(self)) ==> __CPROVER_return_value == LB(self)',
                  '(!MEM(self, value) && value >= UB(self) && !(value <= LB(self))) ==> __CPROVER_return_value == UB(self)'],
         assigns=[]),
    dict(cname='IntervalConstraint__getAcceptedLimit', qname=IC + '::getAcceptedLimit',
         requires=['IC_FRESH(self)', 'IC_VALID(self)', '!VERIF_ISNAN(value)', 'LB(self) <= UB(self)'],
         ensures=['MEM(self, value) ==> __CPROVER_return_value == value',
                  '(!MEM(self, value) && value <= LB(self)) ==> __CPROVER_return_value == (IL(self) ? LB(self) : LB(self) + self->precision_)',
                  '(!MEM(self, value) && value >= UB(self) && !(value <= LB(self))) ==> __CPROVER_return_value == (IU(self) ? UB(self) : UB(self) - self->precision_)'],
         assigns=[]),
    dict(cname='IntervalConstraint__isEmpty', qname=IC + '::isEmpty',
         requires=['IC_FRESH(self)', 'IC_VALID(self)'],
         # emptiness is reported iff no real is accepted (equal infinite bounds are left unspecified)
         ensures=['SPEC_EMPTY_DEFINED(self) ==> (__CPROVER_return_value == SPEC_EMPTY(self))',
                  '__CPROVER_return_value ==> !MEM(self, verif_gv)'],
         harness_pre=['verif_gv = nondet_double();'], mirror={'self': IC},
         assigns=[]),
    dict(cname='IntervalConstraint__ctor_5', qname=IC + '::IntervalConstraint', sig='void (double, double, bool, bool, double)',
         requires=['IC_FRESH(self)', '!VERIF_ISNAN(lowerBound) && !VERIF_ISNAN(upperBound) && !VERIF_ISNAN(precision)'],
         ensures=['LB(self) == lowerBound && UB(self) == upperBound && IL(self) == inclLower && IU(self) == inclUpper',
                  'self->precision_ == precision && self->verif_kind == KIND_IntervalConstraint'],
         assigns=['*self']),
    dict(cname='IntervalConstraint__ctor_4', qname=IC + '::IntervalConstraint', sig='void (bool, double, bool, double)',
         requires=['IC_FRESH(self)', '!VERIF_ISNAN(bound) && !VERIF_ISNAN(precision)'],
         # one finite end as given, the infinite end open
         ensures=['isPositive ==> (LB(self) == bound && IL(self) == incl && UB(self) == VERIF_PINF && !IU(self))',
                  '!isPositive ==> (UB(self) == bound && IU(self) == incl && LB(self) == VERIF_MINF && !IL(self))',
                  'self->verif_kind == KIND_IntervalConstraint'],
         assigns=['*self']),
    dict(cname='IntervalConstraint__ctor_0', qname=IC + '::IntervalConstraint', sig='void ()',
         requires=['IC_FRESH(self)'],
         ensures=['LB(self) == VERIF_MINF && UB(self) == VERIF_PINF && IL(self) && IU(self) && self->precision_ == 1e-12',
                  'self->verif_kind == KIND_IntervalConstraint'],
         assigns=['*self']),
    dict(cname='IntervalConstraint__op_and', qname=IC + '::operator&',
         requires=['IC_FRESH(self)', 'IC_VALID(self)', '__CPROVER_is_fresh(c, sizeof(IntervalConstraint))',
                   'c->verif_kind == KIND_IntervalConstraint ==> IC_VALID((IntervalConstraint*)c)'],
         ensures=['c->verif_kind != KIND_IntervalConstraint ==> __CPROVER_return_value == 0',
                  'c->verif_kind == KIND_IntervalConstraint ==> (__CPROVER_return_value != 0 && __CPROVER_is_fresh(__CPROVER_return_value, sizeof(IntervalConstraint)))',
                  # the intersection accepts exactly the values both accept
                  'c->verif_kind == KIND_IntervalConstraint ==> (MEM((IntervalConstraint*)__CPROVER_return_value, verif_gv) == (MEM(self, verif_gv) && MEM((IntervalConstraint*)c, verif_gv)))',
                  'c->verif_kind == KIND_IntervalConstraint ==> ((IntervalConstraint*)__CPROVER_return_value)->precision_ == (self->precision_ > ((IntervalConstraint*)c)->precision_ ? self->precision_ : ((IntervalConstraint*)c)->precision_)',
                  'c->verif_kind == KIND_IntervalConstraint ==> ((IntervalConstraint*)__CPROVER_return_value)->verif_kind == KIND_IntervalConstraint'],
         harness_pre=['verif_gv = nondet_double();'], mirror={'self': IC, 'c': IC},
         assigns=[]),
    dict(cname='IntervalConstraint__op_andeq', qname=IC + '::operator&=',
         requires=['IC_FRESH(self)', 'IC_VALID(self)', '__CPROVER_is_fresh(c, sizeof(IntervalConstraint))',
                   'c->verif_kind == KIND_IntervalConstraint ==> IC_VALID((IntervalConstraint*)c)'],
         ensures=['__CPROVER_return_value == self', 'verif_exc == 0',
                  'c->verif_kind == KIND_IntervalConstraint ==> (MEM(self, verif_gv) == (MEM_OLD(self, verif_gv) && MEM((IntervalConstraint*)c, verif_gv)))',
                  'c->verif_kind == KIND_IntervalConstraint ==> self->precision_ == (__CPROVER_old(self->precision_) > ((IntervalConstraint*)c)->precision_ ? __CPROVER_old(self->precision_) : ((IntervalConstraint*)c)->precision_)',
                  'c->verif_kind != KIND_IntervalConstraint ==> (LB(self) == __CPROVER_old(LB(self)) && UB(self) == __CPROVER_old(UB(self)) && IL(self) == __CPROVER_old(IL(self)) && IU(self) == __CPROVER_old(IU(self)) && self->precision_ == __CPROVER_old(self->precision_))',
                  'self->verif_kind == KIND_IntervalConstraint'],
         harness_pre=['verif_gv = nondet_double();'], mirror={'self': IC, 'c': IC},
         assigns=['*self', 'verif_exc', 'verif_exc_caught']),
]

FUNCS += [
    dict(cname='ParameterEvent__ctor_1', qname=PE + '::ParameterEvent', sig='void (bpp::Parameter *)',
         requires=['__CPROVER_is_fresh(self, sizeof(ParameterEvent))'], ensures=['self->parameter_ == parameter'], assigns=['*self']),
    dict(cname='Parameter__fireParameterValueChanged', qname=PA + '::fireParameterValueChanged',
         requires=['__CPROVER_is_fresh(self, sizeof(Parameter))', 'VEC_FRESH(&self->listeners_)', '__CPROVER_is_fresh(event, sizeof(ParameterEvent))'],
         ensures=['1'], assigns=[],
         loops={1: dict(assigns='verif_i1', invariant=['verif_i1 <= verif_rng1->n'], decreases='verif_rng1->n - verif_i1')}),
    dict(cname='Parameter__setValue', qname=PA + '::setValue',
         requires=['P_OK(self, Parameter)', 'P_INV(self)'],
         ensures=['P_INV(self)',
                  'verif_exc == 0 || verif_exc == EXC_ConstraintException',
                  # a rejected update raises a constraint error and leaves value and constraint as they were
                  'verif_exc != 0 ==> P_SAME(self)',
                  'self->constraint_ == __CPROVER_old(self->constraint_) && self->precision_ == __CPROVER_old(self->precision_)',
                  '(verif_exc == 0 && verif_fabs(value - __CPROVER_old(self->value_)) > __CPROVER_old(self->precision_) / 2) ==> self->value_ == value',
                  '!(verif_fabs(value - __CPROVER_old(self->value_)) > __CPROVER_old(self->precision_) / 2) ==> (verif_exc == 0 && self->value_ == __CPROVER_old(self->value_))',
                  '(verif_exc != 0) == (verif_fabs(value - __CPROVER_old(self->value_)) > __CPROVER_old(self->precision_) / 2 && self->constraint_ != 0 && !CI_ACCEPTS(self->constraint_, value))'],
         assigns=['self->value_', 'verif_exc'], split=True, mirror={'self': PA, 'self->constraint_': IC}, cex_requires=['self->constraint_ == 0 || CI_IS_IC(self->constraint_)']),
    dict(cname='Parameter__setPrecision', qname=PA + '::setPrecision',
         requires=['P_OK(self, Parameter)', 'P_INV(self)', '!VERIF_ISNAN(precision)'],
         ensures=['P_INV(self)', 'self->precision_ == (precision < 0 ? 0 : precision)', 'self->precision_ >= 0'],
         assigns=['self->precision_']),
    dict(cname='Parameter__setConstraint', qname=PA + '::setConstraint',
         requires=['P_OK(self, Parameter)', 'P_INV(self)', 'CI_OK(constraint)'],
         ensures=['P_INV(self)',
                  'verif_exc == 0 || verif_exc == EXC_ConstraintException',
                  '(verif_exc != 0) == (constraint != 0 && !CI_ACCEPTS(constraint, self->value_))',
                  'verif_exc != 0 ==> P_SAME(self)',
                  'verif_exc == 0 ==> (self->constraint_ == constraint && self->value_ == __CPROVER_old(self->value_))'],
         assigns=['self->constraint_', 'verif_exc'], mirror={'self': PA, 'self->constraint_': IC, 'constraint': IC}, cex_requires=['self->constraint_ == 0 || CI_IS_IC(self->constraint_)', 'constraint == 0 || CI_IS_IC(constraint)']),
    dict(cname='Parameter__removeConstraint', qname=PA + '::removeConstraint',
         requires=['P_OK(self, Parameter)', 'P_INV(self)'],
         ensures=['P_INV(self)', 'self->constraint_ == 0', '__CPROVER_return_value == __CPROVER_old(self->constraint_)', 'self->value_ == __CPROVER_old(self->value_)'],
         assigns=['self->constraint_']),
    dict(cname='Parameter__ctor_4', qname=PA + '::Parameter', sig='void (const std::string &, double, std::shared_ptr<ConstraintInterface>, double)',
         requires=['__CPROVER_is_fresh(self, sizeof(Parameter))', '__CPROVER_is_fresh(name, sizeof(Str))', 'CI_OK(constraint)', '!VERIF_ISNAN(value)', '!VERIF_ISNAN(precision)'],
         ensures=['verif_exc == 0 || verif_exc == EXC_ConstraintException',
                  # after construction the parameter holds the requested value and the constraint accepts it - for every value, 0 included
                  'verif_exc == 0 ==> (self->value_ == value && self->constraint_ == constraint && P_INV(self) && self->precision_ == (precision < 0 ? 0 : precision) && self->listeners_.n == 0)',
                  '(verif_exc != 0) == (constraint != 0 && !CI_ACCEPTS(constraint, value))'],
         assigns=['*self', 'verif_exc'], mirror={'constraint': IC}, cex_requires=['constraint == 0 || CI_IS_IC(constraint)']),
    dict(cname='Parameter__ctor_copy', qname=PA + '::Parameter', sig='void (const bpp::Parameter &)',
         requires=['__CPROVER_is_fresh(self, sizeof(Parameter))', 'P_OK(p, Parameter)', 'P_INV(p)'],
         ensures=['self->value_ == p->value_ && self->constraint_ == p->constraint_ && self->precision_ == p->precision_', 'P_INV(self)',
                  'self->listeners_.n == p->listeners_.n && self->listeners_.d == p->listeners_.d'],
         assigns=['*self']),
    dict(cname='Parameter__op_assign', qname=PA + '::operator=',
         requires=['P_OK(self, Parameter)', 'P_OK(p, Parameter)', 'P_INV(p)'],
         ensures=['self->value_ == p->value_ && self->constraint_ == p->constraint_ && self->precision_ == p->precision_', 'P_INV(self)',
                  '__CPROVER_return_value == self'],
         assigns=['*self']),
    dict(cname='Parameter__getValue', qname=PA + '::getValue', requires=['__CPROVER_is_fresh(self, sizeof(Parameter))', '!VERIF_ISNAN(self->value_)'],
         ensures=['__CPROVER_return_value == self->value_'], assigns=[]),
    dict(cname='Parameter__hasConstraint', qname=PA + '::hasConstraint', requires=['__CPROVER_is_fresh(self, sizeof(Parameter))'],
         ensures=['__CPROVER_return_value == (self->constraint_ != 0)'], assigns=[]),
]

AUTO_C = '((const IntervalConstraint*)self->constraint_)'
FUNCS += [
    dict(cname='AutoParameter__setValue', qname=AP + '::setValue',
         requires=['P_OK(self, AutoParameter)', 'P_INV(self)', 'VERIF_ISFINITE(value)', 'self->precision_ == 0',
                   # quantifier of C01 for the auto-correcting variant: interval constraints, |bounds| <= 1e3 (or infinite),
                   # at least 1e-9 wide, constraint precision one step of 1e-12 .. 1e-10
                   'self->constraint_ != 0 ==> (CI_IS_IC(self->constraint_) && (LB(%s) == VERIF_MINF || (LB(%s) >= -1e3 && LB(%s) <= 1e3)) && (UB(%s) == VERIF_PINF || (UB(%s) >= -1e3 && UB(%s) <= 1e3)) && UB(%s) - LB(%s) >= 1e-9 && PREC(%s) >= 1e-12 && PREC(%s) <= 1e-10)' % ((AUTO_C,) * 10),
                   'value >= -1e3 && value <= 1e3'],
         ensures=['verif_exc == 0',                     # never raises for a finite request
                  'P_INV(self)',
                  'self->constraint_ == __CPROVER_old(self->constraint_)',
                  'self->constraint_ == 0 ==> self->value_ == value',
                  # ends on the accepted value nearest to the request (one precision step inside an open bound)
                  'self->constraint_ != 0 ==> self->value_ == IC_ACCLIMIT(%s, value)' % AUTO_C],
         assigns=['self->value_', 'verif_exc', 'verif_exc_caught'], split=True,
         mirror={'self': AP, 'self->constraint_': IC}),
]

LEMMAS = []
REPLAY = {c: dict(adapter='c01_interval.cpp') for c in
          ['IntervalConstraint__isEmpty', 'IntervalConstraint__op_and', 'IntervalConstraint__op_andeq', 'IntervalConstraint__isCorrect',
           'IntervalConstraint__includes', 'IntervalConstraint__getLimit', 'IntervalConstraint__getAcceptedLimit']}
REPLAY.update({c: dict(adapter='c01_parameter.cpp') for c in ['Parameter__ctor_4', 'Parameter__setValue', 'Parameter__setConstraint', 'AutoParameter__setValue']})

TRUSTED = ['NumConstants::PINF/MINF/TINY modelled as +inf, -inf, 1e-12 (the real code computes the infinities with std::log(0))',
           'dynamic_cast modelled by a ghost type tag set by the extracted constructors']
ASSUMPTIONS = ['interval bounds and precision are not NaN (the quantifier lists finite, equal and infinite bounds)']
NOT_DECIDED = []
