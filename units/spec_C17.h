/* C17: the strict decimal grammar as a DFA over five character classes (D digit, '-', '+', dec, sci; anything else rejects)
     number  := '-'? ( D+ (dec D*)? | dec D+ ) ( sci ('+'|'-')? D+ )?
     integer := '-'? D+ ( sci '+'? D+ )?
   dec and sci are distinct and are neither digits nor signs.  Shared by the CBMC harnesses (C) and the native replay adapter (C++). */
#ifndef SPEC_C17_H
#define SPEC_C17_H
#ifdef __cplusplus
#define _Bool bool
#endif
enum { Q0, QSIGN, QINT, QDOT0, QFRAC, QDOTI, QE, QESIGN, QEXP, QREJ };
static int step_number(int q, char c, char dec, char sci) {
  _Bool d = (c >= '0' && c <= '9');
  switch (q) {
    case Q0:     return d ? QINT : c == '-' ? QSIGN : c == dec ? QDOT0 : QREJ;
    case QSIGN:  return d ? QINT : c == dec ? QDOT0 : QREJ;
    case QINT:   return d ? QINT : c == dec ? QDOTI : c == sci ? QE : QREJ;
    case QDOT0:  return d ? QFRAC : QREJ;                    /* dec without integer part needs a digit */
    case QDOTI:  return d ? QFRAC : c == sci ? QE : QREJ;    /* "12." is accepted */
    case QFRAC:  return d ? QFRAC : c == sci ? QE : QREJ;
    case QE:     return d ? QEXP : (c == '+' || c == '-') ? QESIGN : QREJ;
    case QESIGN: return d ? QEXP : QREJ;
    case QEXP:   return d ? QEXP : QREJ;
    default:     return QREJ;
  }
}
#define ACCEPT_NUMBER(q) ((q) == QINT || (q) == QDOTI || (q) == QFRAC || (q) == QEXP)
static int step_integer(int q, char c, char sci) {
  _Bool d = (c >= '0' && c <= '9');
  switch (q) {
    case Q0:     return d ? QINT : c == '-' ? QSIGN : QREJ;
    case QSIGN:  return d ? QINT : QREJ;
    case QINT:   return d ? QINT : c == sci ? QE : QREJ;
    case QE:     return d ? QEXP : c == '+' ? QESIGN : QREJ;
    case QESIGN: return d ? QEXP : QREJ;
    case QEXP:   return d ? QEXP : QREJ;
    default:     return QREJ;
  }
}
#define ACCEPT_INTEGER(q) ((q) == QINT || (q) == QEXP)
#define SPECIAL_OK(x) (!((x) >= '0' && (x) <= '9') && (x) != '-' && (x) != '+' && (x) != 0)
#endif
