"""C15 - tree validity, re-rooting and tree queries against graph-theoretic definitions (bounded; graph layer: GlobalGraph::isTree and
TreeGraphImpl<GlobalGraph>).  Re-uses the container models, the consistency predicate and the arbitrary-graph generator of C14."""
import os, re
_g = {}
exec(compile(open(os.path.join(os.path.dirname(os.path.abspath(__file__)), 'C14.py')).read(), 'C14.py', 'exec'), _g)
PROPERTY = 'C15'
LEVEL = 'model_checking'
GG = _g['GG']; MNE = _g['MNE']; MNR = _g['MNR']; VU = _g['VU']
TG = 'bpp::TreeGraphImpl<bpp::GlobalGraph>'
SETN = 'std::set<unsigned int>'
TUS = {'gg': _g['TUS']['gg'],
       'tg': dict(src='#include "/repo/src/Bpp/Graph/GlobalGraph.cpp"\n#include "/repo/src/Bpp/Graph/TreeGraphImpl.h"\ntemplate class bpp::TreeGraphImpl<bpp::GlobalGraph>;\n',
                  filter='bpp::TreeGraphImpl', flags=['-I/repo/src/Bpp/Graph', '-I/repo/src'])}
CFG = dict(_g['CFG'])
CFG['types'] = dict(CFG['types']); CFG['types'].update({SETN: 'SetN', 'std::set<GlobalGraph::Node>': 'SetN', TG: 'TreeGraphImpl'})
CFG['rename'] = dict(CFG['rename'])
CFG['type_aliases'] = dict(CFG['type_aliases'])
CFG['struct_fields'] = dict(CFG['struct_fields'])
STRUCTS = _g['STRUCTS']
PRE_STRUCTS = _g['PRE_STRUCTS'] + r'''
/* std::set<Node> over the bounded id universe */
typedef struct SetN { _Bool in[NU]; } SetN;
typedef struct SetNIns { void *first; _Bool second; } SetNIns;
static inline void SetN__ctor_0(SetN *s) { *s = (SetN){{0}}; }
static inline SetNIns SetN__insert(SetN *s, const unsigned int *k) { SetNIns r; r.first = 0;
  __CPROVER_assert(*k < NU, "verif_model_bound: key outside the bounded key universe of the set model"); __CPROVER_assume(*k < NU);
  r.second = !s->in[*k]; s->in[*k] = 1; return r; }
/* find(k) == end()  <=>  k is not a member: iterators are only compared with end() */
static inline const _Bool *SetN__end(const SetN *s) { return (const _Bool*)0; }
static inline const _Bool *SetN__find(const SetN *s, const unsigned int *k) { return (*k < NU && s->in[*k]) ? &s->in[*k] : (const _Bool*)0; }
'''
PRELUDE = _g['PRELUDE']
STUB_CONTRACTS = set()
def B(cname, name, **k):
    return dict(cname=cname, qname=GG + '::' + name, **k)
def T(cname, name, **k):
    return dict(cname=cname, qname=TG + '::' + name, **k)
FUNCS = list(_g['FUNCS']) + [
    B('GlobalGraph__isTree', 'isTree'), B('GlobalGraph__nodesAreMetOnlyOnce_', 'nodesAreMetOnlyOnce_'),
    B('GlobalGraph__getRoot', 'getRoot'), B('GlobalGraph__setRoot', 'setRoot'),
]
LEMMAS = []
REPLAY = {}
TRUSTED = list(_g['TRUSTED'])
ASSUMPTIONS = []
NOT_DECIDED = ['isDA (iterator classes)', 'MRCA (make_shared maps)', 'association layer (edge objects kept on the new link)', 'unrooted trees']
HC = _g['HC'] + r"""
/* reference definitions, read off the edge table only */
static unsigned ref_indeg(const GlobalGraph *g, unsigned n) { unsigned c = 0; FORE(x) if (HASE(g, x) && EB(g, x) == n) c++; return c; }
static unsigned ref_outdeg(const GlobalGraph *g, unsigned n) { unsigned c = 0; FORE(x) if (HASE(g, x) && EA(g, x) == n) c++; return c; }
/* nodes reachable from r along the edges (both ways when undirected): NU rounds of relaxation */
static void ref_reach(const GlobalGraph *g, unsigned r, _Bool *seen) { FORN(a) seen[a] = (a == r);
  FORN(round) FORE(x) if (HASE(g, x)) { if (seen[EA(g, x)]) seen[EB(g, x)] = 1; if (!g->directed_ && seen[EB(g, x)]) seen[EA(g, x)] = 1; } }
/* a rooted tree spanning all nodes from root_: the root exists and has no father, every other node has exactly one, all are reachable from the root;
   an unrooted tree: connected with |E| = |N| - 1 */
static _Bool ref_tree(const GlobalGraph *g) { unsigned r = g->root_; if (!(r < NU && HASN(g, r))) return 0;
  _Bool seen[NU]; ref_reach(g, r, seen); unsigned nn = 0, ne = 0; FORN(a) if (HASN(g, a)) { nn++; if (!seen[a]) return 0; } FORE(x) if (HASE(g, x)) ne++;
  if (ne + 1 != nn) return 0;
  if (g->directed_) { FORN(a) if (HASN(g, a) && ref_indeg(g, a) != (a == r ? 0u : 1u)) return 0; }
  return 1; }
"""
H = {}
H['isTree'] = HC + r"""
void h(void) { GlobalGraph g; mk_graph(&g); g.root_ = nondet_uint(); in_a = g.root_; __CPROVER_assume(g.root_ < NU && HASN(&g, g.root_)); GlobalGraph g0 = g; verif_exc = 0;
  _Bool t = GlobalGraph__isTree(&g);
  __CPROVER_assert(verif_exc == 0, "isTree does not raise on a graph whose root exists");
  __CPROVER_assert(t == ref_tree(&g0), "isTree is true exactly when the graph is a tree spanning all nodes from the root");
  __CPROVER_assert(same_tables(&g, &g0) && g.root_ == g0.root_, "isTree does not modify the graph");
  CANARY(); }
"""
def generate_jobs(unit, tier):
    jobs = []
    bodies = [f['cname'] for f in FUNCS]
    def add(op, suffix, nu, ne, extra='', what='', unwind=None, mem_gb=None, flags=(), timeout=900):
        jobs.append(dict(id='b_%s%s' % (op, suffix), kind='bounded', mode='bounded', entry='h', bodies=bodies, harness=H[op], unwind=unwind or max(nu, ne) + 2, timeout=timeout, cbmc_flags=list(flags),
                         mem_kb=(mem_gb * 1024 * 1024 if mem_gb else None),
                         defs='#define NU %d\n#define NE %d\n#define VEC_BCAP %d\n#define MAP_MAXNU %d\n%s' % (nu, ne, max(nu, ne), max(nu, ne), extra),
                         bound='id universe: %d node ids, %d edge ids; arbitrary well-formed %sgraph' % (nu, ne, what or 'directed or undirected '),
                         doc='%s on an arbitrary well-formed graph' % op))
    for d, w in ((1, 'directed '), (0, 'undirected ')):
        # recursion depth: every call inserts a new node or returns at once; the loop runs over at most NU neighbours
        add('isTree', '_%s' % w[0], 3, 3, '#define FIX_DIRECTED %d\n' % d, w, mem_gb=28, flags=['--unwindset', 'GlobalGraph__nodesAreMetOnlyOnce_:4,GlobalGraph__nodesAreMetOnlyOnce_.0:3'])
    return jobs
