// Native replay of tokeniser counterexamples (b_tokenize_*, b_nested_*): the verifier's input bytes and delimiter bytes are fed to the real
// StringTokenizer / NestedStringTokenizer and the result is compared with the character-level reference of the harness.
// The job name carries the options: b_tokenize_len<L>_d<D>_solid<S>_empty<E>, b_nested_len<L>_d<D>_solid<S>.
// b_glob_p<P>_n<N>: ApplicationTools::matchingParameters and ParameterList::getMatchingParameterNames against a recursive glob matcher.
// SOURCES: @all
#include <Bpp/Text/StringTokenizer.h>
#include <Bpp/Text/NestedStringTokenizer.h>
#include <Bpp/Exceptions.h>
#include <Bpp/App/ApplicationTools.h>
#include <Bpp/Numeric/ParameterList.h>
#include "adapters/args.h"
#include <vector>
#include <cstdio>
using namespace bpp; using namespace std;
static string show(const string& s) { return "\"" + s + "\""; }
static bool glob(const string& p, size_t i, const string& n, size_t j) { if (i == p.size()) return j == n.size(); if (p[i] == '*') return glob(p, i + 1, n, j) || (j < n.size() && glob(p, i, n, j + 1)); return j < n.size() && p[i] == n[j] && glob(p, i + 1, n, j + 1); }
int main(int argc, char** argv) {
  Args a(argc, argv); string fn = a.s("fn"); int L = 0, D = 0, S = 0, E = 0; bool nested = fn.compare(0, 8, "b_nested") == 0;
  if (fn.compare(0, 6, "b_glob") == 0) { int P = 0, N = 0; if (sscanf(fn.c_str(), "b_glob_p%d_n%d", &P, &N) != 2) { cout << "cannot read the sizes from " << fn << endl; return 3; }
    string p, n; for (int i = 0; i < P; ++i) p += (char)a.u("in_p_" + to_string(i)); for (int i = 0; i < N; ++i) n += (char)a.u("in_n_" + to_string(i));
    vector<string> names(1, n); vector<string> r = ApplicationTools::matchingParameters(p, names); bool ref = glob(p, 0, n, 0);
    cout << "matchingParameters(" << show(p) << ", {" << show(n) << "}) returns " << r.size() << " name(s); glob says " << (ref ? "match" : "no match") << endl;
    CHECK_POST(r.size() == (ref ? 1u : 0u));
    if (N > 0) { ParameterList pl; pl.addParameter(Parameter(n, 0.)); vector<string> r2 = pl.getMatchingParameterNames(p); cout << "getMatchingParameterNames returns " << r2.size() << " name(s)" << endl; CHECK_POST(r2.size() == (ref ? 1u : 0u)); }
    return verif_failed; }
  if (nested) { if (sscanf(fn.c_str(), "b_nested_len%d_d%d_solid%d", &L, &D, &S) != 3) { cout << "cannot read the options from " << fn << endl; return 3; } }
  else if (sscanf(fn.c_str(), "b_tokenize_len%d_d%d_solid%d_empty%d", &L, &D, &S, &E) != 4) { cout << "cannot read the options from " << fn << endl; return 3; }
  string s, d; for (int i = 0; i < L; ++i) s += (char)a.u("in_s_" + to_string(i)); for (int i = 0; i < D; ++i) d += (char)a.u("in_d_" + to_string(i));
  auto isdelim = [&](char c) { return d.find(c) != string::npos; };
  if (nested) {
    cout << "NestedStringTokenizer(" << show(s) << ", \"(\", \")\", " << show(d) << ", solid=" << S << ")" << endl;
    int bal = 0; vector<bool> split(L + 1, false); for (int p = 0; p < L; ++p) { split[p] = isdelim(s[p]) && bal == 0; if (s[p] == '(') bal++; if (s[p] == ')') bal--; }
    vector<string> expect; int start = 0; for (int p = 0; p <= L; ++p) if (p == L || split[p]) { if (S || p > start) expect.push_back(s.substr(start, p - start)); start = p + 1; }
    vector<string> got; bool raised = false;
    try { NestedStringTokenizer st(s, "(", ")", d, S != 0); while (st.hasMoreToken()) got.push_back(st.nextToken()); }
    catch (bpp::Exception& e) { raised = true; cout << "raised: " << e.what() << endl; }
    cout << "tokens:"; for (auto& t : got) cout << " " << show(t); cout << endl;
    CHECK_POST(raised == (bal != 0));
    if (!raised && bal == 0) { cout << "expected:"; for (auto& t : expect) cout << " " << show(t); cout << endl; CHECK_POST(got == expect); }
  } else {
    cout << "StringTokenizer(" << show(s) << ", " << show(d) << ", solid=" << S << ", allowEmptyTokens=" << E << ")" << endl;
    StringTokenizer st(s, d, S != 0, E != 0);
    int first = 0, last = L;
    if (!S) { while (first < L && isdelim(s[first])) first++; if (!E) while (last > first && isdelim(s[last - 1])) last--; if (first == L) last = L; }
    if (!S) { StringTokenizer st2(s, d, false, E != 0); while (st2.hasMoreToken()) { string t = st2.nextToken(); for (char c : t) CHECK_POST(!isdelim(c)); if (!E) CHECK_POST(!t.empty()); } }
    string r = st.unparseRemainingTokens(); cout << "re-joined: " << show(r) << "   expected: " << show(s.substr(first, last - first)) << endl;
    CHECK_POST(r == s.substr(first, last - first));
  }
  return verif_failed;
}
