// Native replay of IntervalConstraint counterexamples on the real class (header-only part of Constraints.h).
// SOURCES: Bpp/Exceptions.cpp Bpp/Text/TextTools.cpp Bpp/Text/StringTokenizer.cpp
#include <Bpp/Numeric/Constraints.h>
#include "adapters/args.h"
#include "../units/spec_C01.h"
using namespace bpp;
static IntervalConstraint mk(const Args& a, const std::string& p) {
  return IntervalConstraint(a.d("verif_in_" + p + "_lowerBound_"), a.d("verif_in_" + p + "_upperBound_"),
                            a.b("verif_in_" + p + "_inclLowerBound_"), a.b("verif_in_" + p + "_inclUpperBound_"),
                            a.d("verif_in_" + p + "_precision_"));
}
int main(int argc, char** argv) {
  Args a(argc, argv);
  std::string fn = a.s("fn");
  IntervalConstraint selfo = mk(a, "self"); IntervalConstraint* self = &selfo;
  double gv = a.has("verif_gv") ? a.d("verif_gv") : 0;
  std::cout.precision(17);
  std::cout << fn << " self=" << self->getDescription() << " gv=" << gv << "\n";
  if (fn == "IntervalConstraint__isEmpty") {
    bool r = self->isEmpty();
    std::cout << "isEmpty=" << r << "\n";
    if (SPEC_EMPTY_DEFINED(self)) CHECK_POST(r == SPEC_EMPTY(self));
    if (r) CHECK_POST(!MEM(self, gv));
  } else if (fn == "IntervalConstraint__op_and" || fn == "IntervalConstraint__op_andeq") {
    IntervalConstraint co = mk(a, "c"); IntervalConstraint* c = &co;
    std::cout << "c=" << c->getDescription() << "\n";
    bool ms = MEM(self, gv), mc = MEM(c, gv);
    double p0 = PREC(self);
    IntervalConstraint* r;
    if (fn == "IntervalConstraint__op_and") r = dynamic_cast<IntervalConstraint*>(*self & *c); else { *self &= *c; r = self; }
    CHECK_POST(r != 0);
    std::cout << "result=" << r->getDescription() << " accepts gv: " << MEM(r, gv) << " operands accept gv: " << ms << " " << mc << "\n";
    CHECK_POST(MEM(r, gv) == (ms && mc));
    CHECK_POST(PREC(r) == SPEC_MAX(p0, PREC(c)));
  } else if (fn == "IntervalConstraint__isCorrect") {
    double v = a.d("value"); CHECK_POST(self->isCorrect(v) == MEM(self, v));
  } else if (fn == "IntervalConstraint__includes") {
    double mn = a.d("min"), mx = a.d("max"); CHECK_POST(self->includes(mn, mx) == (MEM_LOW(self, mn) && MEM_UP(self, mx)));
  } else if (fn == "IntervalConstraint__getLimit" || fn == "IntervalConstraint__getAcceptedLimit") {
    double v = a.d("value"); bool acc = fn == "IntervalConstraint__getAcceptedLimit";
    double r = acc ? self->getAcceptedLimit(v) : self->getLimit(v);
    if (MEM(self, v)) CHECK_POST(r == v);
    else if (v <= LB(self)) CHECK_POST(r == ((IL(self) || !acc) ? LB(self) : LB(self) + PREC(self)));
    else if (v >= UB(self)) CHECK_POST(r == ((IU(self) || !acc) ? UB(self) : UB(self) - PREC(self)));
  } else { std::cout << "unknown fn\n"; return 3; }
  return verif_failed;
}
