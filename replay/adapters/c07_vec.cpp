// Native replay of VectorTools / vector-operator counterexamples: vectors of the sizes found by the verifier (filled with 1, 2, 3 ...),
// built with _GLIBCXX_ASSERTIONS and ASan so that an out-of-range element access aborts.
// CXXFLAGS: -D_GLIBCXX_ASSERTIONS
// SOURCES: Bpp/Exceptions.cpp Bpp/Text/TextTools.cpp Bpp/Text/StringTokenizer.cpp
#include <Bpp/Numeric/VectorTools.h>
#include "adapters/args.h"
using namespace bpp; using namespace std;
static Args* AR;
static vector<double> vec(const string& n) { size_t k = AR->has("verif_in_" + n + "_n") ? AR->u("verif_in_" + n + "_n") : 0; if (k > 4096) exit(3); vector<double> v(k); for (size_t i = 0; i < k; ++i) v[i] = double(i + 1); return v; }
int main(int argc, char** argv) {
  Args a(argc, argv); AR = &a; string fn = a.s("fn");
  vector<double> v1 = vec("v1"), v2 = vec("v2"), v = vec("v");
  cout << fn << " |v1|=" << v1.size() << " |v2|=" << v2.size() << " |v|=" << v.size() << endl;
  bool raised = false, expect = false, known = true; string what;
  try {
    if (fn == "op_pluseq_vv") { expect = v1.size() != v2.size(); v1 += v2; }
    else if (fn == "op_minuseq_vv") { expect = v1.size() != v2.size(); v1 -= v2; }
    else if (fn == "op_muleq_vv") { expect = v1.size() != v2.size(); v1 *= v2; }
    else if (fn == "op_diveq_vv") { expect = v1.size() != v2.size(); v1 /= v2; }
    else if (fn == "op_plus_vv") { expect = v1.size() != v2.size(); v1 + v2; }
    else if (fn == "VectorTools__sumProd") { expect = v1.size() != v2.size(); VectorTools::sumProd(v1, v2); }
    else if (fn == "VectorTools__logSumExp_w") { expect = v1.size() != v2.size() || v1.empty(); VectorTools::logSumExp(v1, v2); }
    else if (fn == "VectorTools__sumExp_w") { expect = v1.size() != v2.size() || v1.empty(); VectorTools::sumExp(v1, v2); }
    else if (fn == "VectorTools__max") { expect = v.empty(); VectorTools::max(v); }
    else if (fn == "VectorTools__min") { expect = v.empty(); VectorTools::min(v); }
    else if (fn == "VectorTools__whichMaxAll") { expect = v.empty(); VectorTools::whichMaxAll(v); }
    else if (fn == "VectorTools__whichMinAll") { expect = v.empty(); VectorTools::whichMinAll(v); }
    else if (fn == "VectorTools__containsAll") { bool r = VectorTools::containsAll(v1, v2); CHECK_POST(!v2.empty() || r); CHECK_POST(!(v1.empty() && !v2.empty()) || !r); }
    else if (fn == "VectorTools__diff") { vector<double> v3 = vec("v3"); size_t n3 = v3.size(); for (size_t i = 0; i < v2.size(); ++i) v2[i] = -double(i + 1);   /* disjoint operands */
      VectorTools::diff(v1, v2, v3); cout << "|v3| " << n3 << " -> " << v3.size() << endl; CHECK_POST(v3.size() == n3 + v1.size()); }
    else known = false;
  } catch (bpp::Exception& e) { raised = true; what = e.what(); }
  if (!known) { cout << "no native check for " << fn << endl; return 3; }
  cout << "returned, raised=" << raised << " (" << what << ") expected=" << expect << endl;
  CHECK_POST(raised == expect);
  return verif_failed;
}
