// Native replay of contingency-table counterexamples: the verifier's margins are given to the real ContingencyTableGenerator and
// rcont2() is called 2000 times with a fixed seed under ASan / UBSan / _GLIBCXX_ASSERTIONS; every table must have the requested totals.
// (The first access to the log-factorial table does not depend on the random stream.)
// CXXFLAGS: -D_GLIBCXX_ASSERTIONS
// SOURCES: Bpp/Exceptions.cpp Bpp/Text/TextTools.cpp Bpp/Text/StringTokenizer.cpp Bpp/Numeric/Random/RandomTools.cpp Bpp/Numeric/Random/ContingencyTableGenerator.cpp
#include <Bpp/Numeric/Random/ContingencyTableGenerator.h>
#include <Bpp/Numeric/Random/RandomTools.h>
#include "adapters/args.h"
using namespace bpp; using namespace std;
int main(int argc, char** argv) {
  Args a(argc, argv); vector<size_t> r = {(size_t)a.u("in_r0"), (size_t)a.u("in_r1")}, c = {(size_t)a.u("in_c0"), (size_t)a.u("in_c1")};
  cout << "ContingencyTableGenerator({" << r[0] << "," << r[1] << "}, {" << c[0] << "," << c[1] << "}).rcont2()" << endl;
  RandomTools::setSeed(12345);
  try { ContingencyTableGenerator g(r, c);
    for (int k = 0; k < 2000; ++k) { RowMatrix<size_t> t = g.rcont2();
      bool ok = t(0, 0) + t(0, 1) == r[0] && t(1, 0) + t(1, 1) == r[1] && t(0, 0) + t(1, 0) == c[0] && t(0, 1) + t(1, 1) == c[1];
      if (!ok) { cout << "table " << t(0, 0) << " " << t(0, 1) << " / " << t(1, 0) << " " << t(1, 1) << endl; CHECK_POST(ok); return 1; } } }
  catch (bpp::Exception& e) { cout << "bpp::Exception: " << e.what() << endl; return 0; }
  return verif_failed;
}
