// Native replay of multinomial counterexamples: the verifier's probabilities are used as they are and the uniform variate of the
// counterexample is put into the real generator: RandomTools::DEFAULT_GENERATOR (public, std::mt19937) is loaded with a state whose
// next two outputs make std::uniform_real_distribution<double>(0, 1) return exactly that double (libstdc++'s generate_canonical adds
// two 32-bit outputs, low word first, and divides by 2^64; the tempering of the twister is inverted).  The adapter first checks that
// the loaded generator really yields the wanted variate, then calls the real RandomTools::randMultinomial.
// SOURCES: Bpp/Exceptions.cpp Bpp/Text/TextTools.cpp Bpp/Text/StringTokenizer.cpp Bpp/Numeric/Random/RandomTools.cpp
#include <Bpp/Numeric/Random/RandomTools.h>
#include "adapters/args.h"
#include <sstream>
#include <random>
#include <cmath>
#include <cstdio>
using namespace bpp; using namespace std;
static uint32_t untemper(uint32_t y) {
  y ^= y >> 18;
  y ^= (y << 15) & 0xefc60000u;
  uint32_t t = y; for (int k = 0; k < 5; ++k) t = y ^ ((t << 7) & 0x9d2c5680u); y = t;
  t = y; for (int k = 0; k < 3; ++k) t = y ^ (t >> 11); y = t;
  return y; }
static bool load(double r) {
  // r = m * 2^-53 with an integer m: N = r * 2^64 is an integer below 2^64
  long double N = ldexpl((long double)r, 64); uint64_t n = (uint64_t)N; if ((long double)n != N) return false;
  uint32_t lo = (uint32_t)(n & 0xffffffffu), hi = (uint32_t)(n >> 32);
  std::ostringstream os; os << untemper(lo) << ' ' << untemper(hi); for (int i = 2; i < 624; ++i) os << ' ' << 0u; os << ' ' << 0u;   // state words, then the position
  std::istringstream is(os.str()); is >> RandomTools::DEFAULT_GENERATOR; if (!is) return false;
  std::mt19937 copy = RandomTools::DEFAULT_GENERATOR; std::uniform_real_distribution<double> dis(0, 1); return dis(copy) == r; }
int main(int argc, char** argv) {
  Args a(argc, argv); string fn = a.s("fn"); int K = 0;
  { int n = 0, mode = 0; if (sscanf(fn.c_str(), "b_weightedPick_n%d_m%d", &n, &mode) == 2) {
      vector<int> v; vector<double> w; for (int i = 0; i < n; ++i) { v.push_back((int)a.i32("in_v_" + to_string(i))); w.push_back(a.d("in_w_" + to_string(i))); }
      if (n == 0) { try { vector<int> e; vector<double> ew; RandomTools::pickOne(e, ew, false); cout << "CONFIRMED: no exception on an empty source\n"; return 1; } catch (bpp::Exception&) { return 0; } }
      if (!a.has("in_r")) { cout << "the trace does not show the uniform variate\n"; return 3; }
      double r = a.d("in_r"); if (!(r >= 0 && r < 1) || !load(r)) { cout << "could not load the generator with the variate " << r << endl; return 3; }
      printf("weighted pickOne (mode %d) of {", mode); for (int i = 0; i < n; ++i) printf("%s%d:%.17g", i ? ", " : "", v[i], w[i]); printf("} with the uniform variate %.17g\n", r);
      vector<int> v0 = v; vector<double> w0 = w; const vector<int>& cv = v; const vector<double>& cw = w;
      int e = (mode == 2) ? RandomTools::pickOne(cv, cw) : RandomTools::pickOne(v, w, mode == 1);
      cout << "picked " << e << "; " << v.size() << " elements and " << w.size() << " weights remain" << endl;
      bool ok = false; for (int i = 0; i < n; ++i) if (v0[i] == e && w0[i] > 0) ok = true; CHECK_POST(ok);
      if (mode == 0) { CHECK_POST(v.size() == (size_t)n - 1 && w.size() == (size_t)n - 1);
        bool paired = false; for (int p = 0; p < n && v.size() == (size_t)n - 1 && w.size() == (size_t)n - 1; ++p) if (v0[p] == e && w0[p] > 0) { bool same = true; for (int i = 0; i < n - 1; ++i) { int src = (i == p ? n - 1 : i); if (v[i] != v0[src] || w[i] != w0[src]) same = false; } if (same) paired = true; }
        CHECK_POST(paired); }
      else CHECK_POST(v == v0 && w == w0);
      return verif_failed; } }
  if (sscanf(fn.c_str(), "b_randMultinomial_k%d", &K) != 1) { cout << "no native check for " << fn << endl; return 3; }
  vector<double> probs; for (int i = 0; i < K; ++i) probs.push_back(a.d("in_p_" + to_string(i)));
  if (!a.has("in_r")) { cout << "the trace does not show the uniform variate\n"; return 3; }
  double r = a.d("in_r"); if (!(r >= 0 && r < 1) || !load(r)) { cout << "could not load the generator with the variate " << r << endl; return 3; }
  printf("randMultinomial(1, {"); for (int i = 0; i < K; ++i) printf("%s%.17g", i ? ", " : "", probs[i]); printf("}) with the uniform variate %.17g\n", r);
  vector<size_t> s = RandomTools::randMultinomial(1, probs);
  cout << "class drawn: " << s[0] << " of " << K << endl;
  CHECK_POST(s.size() == 1 && s[0] < (size_t)K);
  if (s[0] < (size_t)K) CHECK_POST(probs[s[0]] > 0);
  return verif_failed;
}
