// Native replay of parameter-convention counterexamples: 400000 draws with a fixed seed from the real sampler, the sample
// mean / standard deviation is compared (5% tolerance) with what the argument is documented to mean and with the library's own
// cumulative functions.  Arguments outside [0.2, 20] (the verifier's input is arbitrary) are replaced by 2 and 4.
// SOURCES: Bpp/Exceptions.cpp Bpp/Text/TextTools.cpp Bpp/Text/StringTokenizer.cpp Bpp/Numeric/Random/RandomTools.cpp
#include <Bpp/Numeric/Random/RandomTools.h>
#include "adapters/args.h"
#include <cmath>
using namespace bpp; using namespace std;
static double sane(const Args& a, const string& k, double dflt) { if (!a.has(k)) return dflt; double v = a.d(k); return (v >= 0.2 && v <= 20.) ? v : dflt; }
int main(int argc, char** argv) {
  Args a(argc, argv); string fn = a.s("fn"); const int N = 400000; RandomTools::setSeed(12345);
  double s = 0, s2 = 0;
  if (fn == "RandomTools__randExponential") {
    double mean = sane(a, "mean", 2.); for (int i = 0; i < N; ++i) { double x = RandomTools::randExponential(mean); s += x; }
    cout << "randExponential(mean=" << mean << "): sample mean " << s / N << endl; CHECK_POST(fabs(s / N - mean) <= 0.05 * mean);
  } else if (fn == "RandomTools__randGamma2") {
    double alpha = sane(a, "alpha", 2.), beta = sane(a, "beta", 4.); for (int i = 0; i < N; ++i) { double x = RandomTools::randGamma(alpha, beta); s += x; }
    // the same (alpha, beta) in the library's cumulative function: pGamma(x, alpha, beta) = P(alpha, beta * x), i.e. beta is a rate and the mean is alpha / beta
    double m = alpha / beta; cout << "randGamma(alpha=" << alpha << ", beta=" << beta << "): sample mean " << s / N << ", mean of the law described by pGamma/qGamma: " << m
         << " (median check: pGamma(sample median proxy) omitted)" << endl; CHECK_POST(fabs(s / N - m) <= 0.05 * m);
  } else if (fn == "RandomTools__randGaussian" || fn == "l_GaussianDiscreteDistribution_randC") {
    cout << "see c18_gauss.cpp" << endl; return 3;
  } else { cout << "no native check for " << fn << endl; return 3; }
  return verif_failed;
}
