// Native replay of Parameter / AutoParameter counterexamples on the real classes.
// SOURCES: Bpp/Exceptions.cpp Bpp/Text/TextTools.cpp Bpp/Text/StringTokenizer.cpp Bpp/Numeric/Parameter.cpp Bpp/Numeric/AutoParameter.cpp Bpp/Numeric/ParameterExceptions.cpp Bpp/App/ApplicationTools.cpp Bpp/Io/FileTools.cpp Bpp/Numeric/ParameterList.cpp Bpp/Utils/AttributesTools.cpp Bpp/Text/KeyvalTools.cpp Bpp/Text/NestedStringTokenizer.cpp
#include <Bpp/Numeric/Parameter.h>
#include <Bpp/Numeric/AutoParameter.h>
#include "adapters/args.h"
#include "../units/spec_C01.h"
using namespace bpp;
using namespace std;
static shared_ptr<ConstraintInterface> mk(const Args& a, const string& p) {
  if (!a.has("verif_in_" + p + "_lowerBound_")) return nullptr;
  if (a.has("verif_in_" + p + "_verif_kind") && a.u("verif_in_" + p + "_verif_kind") != 1) return nullptr;
  return make_shared<IntervalConstraint>(a.d("verif_in_" + p + "_lowerBound_"), a.d("verif_in_" + p + "_upperBound_"),
                            a.b("verif_in_" + p + "_inclLowerBound_"), a.b("verif_in_" + p + "_inclUpperBound_"),
                            a.d("verif_in_" + p + "_precision_"));
}
#define INV_HOLDS(p) (!(p).hasConstraint() || MEM(dynamic_cast<const IntervalConstraint*>((p).getConstraint().get()), (p).getValue()))
int main(int argc, char** argv) {
  Args a(argc, argv);
  string fn = a.s("fn");
  cout.precision(17);
  if (fn == "Parameter__ctor_4") {
    auto c = mk(a, "constraint");
    double v = a.d("value"), prec = a.d("precision");
    cout << "Parameter(\"x\", " << v << ", " << (c ? c->getDescription() : string("none")) << ", " << prec << ")\n";
    bool raised = false;
    try {
      Parameter p("x", v, c, prec);
      cout << "constructed, value=" << p.getValue() << "\n";
      CHECK_POST(p.getValue() == v);
      CHECK_POST(INV_HOLDS(p));
    } catch (ConstraintException& e) { raised = true; cout << "ConstraintException\n"; }
    CHECK_POST(raised == (c && !MEM(dynamic_cast<IntervalConstraint*>(c.get()), v)));
  } else if (fn == "Parameter__setValue" || fn == "Parameter__setConstraint" || fn == "AutoParameter__setValue") {
    auto c = mk(a, "self_constraint");
    double v0 = a.d("verif_in_self_value_"), prec = a.d("verif_in_self_precision_");
    // build the pre-state without going through the checks: unconstrained, then attach
    Parameter* p = (fn == "AutoParameter__setValue") ? new AutoParameter("x", v0, nullptr) : new Parameter("x", v0, nullptr, 0.0);
    if (fn == "AutoParameter__setValue") dynamic_cast<AutoParameter*>(p)->setMessageHandler(nullptr);
    if (c) { if (!c->isCorrect(v0)) { cout << "pre-state violates INV (input outside the precondition)\n"; return 3; } p->setConstraint(c); }
    p->setPrecision(prec);
    if (fn == "Parameter__setConstraint") {
      auto c2 = mk(a, "constraint");
      bool raised = false;
      try { p->setConstraint(c2); } catch (ConstraintException&) { raised = true; }
      CHECK_POST(INV_HOLDS(*p));
      CHECK_POST(raised == (c2 && !MEM(dynamic_cast<IntervalConstraint*>(c2.get()), v0)));
      if (raised) CHECK_POST(p->getValue() == v0 && p->getConstraint() == c);
    } else {
      double v = a.d("value");
      bool raised = false;
      try { p->setValue(v); } catch (ConstraintException&) { raised = true; }
      cout << "setValue(" << v << ") from " << v0 << " -> " << p->getValue() << (raised ? " raised" : "") << "\n";
      CHECK_POST(INV_HOLDS(*p));
      if (raised) CHECK_POST(p->getValue() == v0);
      if (fn == "AutoParameter__setValue") CHECK_POST(!raised);
    }
  } else { cout << "unknown fn\n"; return 3; }
  return verif_failed;
}
