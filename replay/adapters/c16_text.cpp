// Native replay of text-parsing counterexamples (sizes come from the trace; contents are filled with letters and with the
// delimiter characters so that the shape of the input matches).  A run that does not return within the time limit of the
// replay driver, or that is stopped by ASan / _GLIBCXX_ASSERTIONS, confirms the violation.
// CXXFLAGS: -D_GLIBCXX_ASSERTIONS
// SOURCES: Bpp/Exceptions.cpp Bpp/Text/TextTools.cpp Bpp/Text/StringTokenizer.cpp Bpp/Text/NestedStringTokenizer.cpp Bpp/Io/FileTools.cpp
#include <Bpp/Text/StringTokenizer.h>
#include <Bpp/Text/TextTools.h>
#include <Bpp/Io/FileTools.h>
#include "adapters/args.h"
#include <sys/resource.h>
using namespace bpp; using namespace std;
int main(int argc, char** argv) {
  Args a(argc, argv); string fn = a.s("fn");
  try {
    if (fn == "StringTokenizer__ctor_4") {
      size_t ns = a.u("verif_in_s_n"), nd = a.u("verif_in_delimiters_n"); bool solid = a.b("solid"), allowEmpty = a.b("allowEmptyTokens");
      string delim(nd, ','); string s; for (size_t i = 0; i < ns; ++i) s += (i % 2) ? ',' : 'a';
      cout << "StringTokenizer(\"" << s << "\", \"" << delim << "\", solid=" << solid << ", allowEmptyTokens=" << allowEmpty << ")" << endl;
      StringTokenizer st(s, delim, solid, allowEmpty);
      cout << "returned with " << st.numberOfRemainingTokens() << " tokens" << endl;
    } else if (fn == "StringTokenizer__unparseRemainingTokens") {
      size_t nt = a.u("verif_in_self_tokens_n");
      if (nt != 0) { cout << "native replay only covers the empty tokenizer\n"; return 3; }
      StringTokenizer st("", ",");
      cout << "unparseRemainingTokens() on a tokenizer with " << st.numberOfRemainingTokens() << " tokens" << endl;
      string r = st.unparseRemainingTokens(); cout << "returned \"" << r << "\"" << endl;
    } else if (fn == "FileTools__getParent") {
      size_t n = a.u("verif_in_path_n"); string p(n, 'a'); cout << "getParent(\"" << p << "\")" << endl; string r = FileTools::getParent(p); cout << "returned \"" << r << "\"" << endl;
    } else if (fn == "TextTools__removeSubstrings5") {
      size_t n = a.u("verif_in_s_n"), nb = a.u("verif_in_exceptionsBeginning_n"), ne = a.u("verif_in_exceptionsEnding_n"); if (n > 4096 || nb > 64 || ne > 64) return 3;
      string s(n, 'a'); if (n) s[0] = '['; vector<string> eb(nb, "xx["), ee(ne, "]yy");   /* a block opening at position 0, exception strings that would start before the text */
      cout << "removeSubstrings(\"" << s << "\", '[', ']', " << nb << " x \"xx[\", " << ne << " x \"]yy\")" << endl;
      string r = TextTools::removeSubstrings(s, '[', ']', eb, ee); cout << "returned \"" << r << "\"" << endl;
    } else { cout << "no native check for " << fn << endl; return 3; }
  } catch (bpp::Exception& e) { cout << "bpp::Exception: " << e.what() << endl; return 0; }
  catch (std::bad_alloc&) { cout << "CONFIRMED: unbounded allocation (std::bad_alloc under a 2 GiB address-space limit)" << endl; return 1; }
  catch (std::exception& e) { cout << "CONFIRMED: exception that is not a bpp::Exception: " << e.what() << endl; return 1; }
  return 0;
}
