// Native replay of GlobalGraph counterexamples: the well-formed pre-state found by the verifier (present nodes, edges with
// their end points, directedness) is rebuilt through the public API of the real class, the operation is applied to the
// real object with the verifier's arguments, and the consistency of the views is checked through the public queries.
// SOURCES: Bpp/Exceptions.cpp Bpp/Text/TextTools.cpp Bpp/Text/StringTokenizer.cpp Bpp/Graph/GlobalGraph.cpp
#include <Bpp/Graph/GlobalGraph.h>
#include <Bpp/Exceptions.h>
#include <algorithm>
#include "adapters/args.h"
#include <set>
using namespace bpp; using namespace std;
// link / unlink are protected (used by the observer classes and by the tree / DAG containers): exposed for the replay
struct G : public GlobalGraph { G(bool d) : GlobalGraph(d) {} using GlobalGraph::link; using GlobalGraph::unlink; using GlobalGraph::switchNodes; };
static bool consistent(GlobalGraph& g, string& why) {
  vector<Graph::NodeId> nodes = g.getAllNodes(); set<Graph::NodeId> ns(nodes.begin(), nodes.end());
  for (auto e : g.getAllEdges()) { auto p = g.getNodes(e);
    if (!ns.count(p.first) || !ns.count(p.second)) { why = "edge " + to_string(e) + " has an end point that is not a node of the graph"; return false; }
    auto out = g.getOutgoingEdges(p.first); if (find(out.begin(), out.end(), e) == out.end()) { why = "edge " + to_string(e) + " is not listed by its first end point"; return false; }
    auto inc = g.getIncomingEdges(p.second); if (find(inc.begin(), inc.end(), e) == inc.end()) { why = "edge " + to_string(e) + " is not listed by its second end point"; return false; } }
  for (auto n : nodes) for (auto m : g.getOutgoingNeighbors(n)) if (!ns.count(m)) { why = "node " + to_string(n) + " lists the absent node " + to_string(m) + " as a neighbour"; return false; }
  for (auto n : nodes) for (auto m : g.getOutgoingNeighbors(n)) { auto e = g.getEdge(n, m); auto all = g.getAllEdges(); if (find(all.begin(), all.end(), e) == all.end()) continue; auto p = g.getNodes(e);
    if (!((p.first == n && p.second == m) || (!g.isDirected() && p.first == m && p.second == n))) { why = "node " + to_string(n) + " lists edge " + to_string(e) + " to node " + to_string(m) + " but the edge table gives it other end points"; return false; } }
  for (auto n : nodes) for (auto e : g.getOutgoingEdges(n)) { auto all = g.getAllEdges(); if (find(all.begin(), all.end(), e) == all.end()) { why = "node " + to_string(n) + " lists an edge that is not in the edge table"; return false; } }
  return true; }
int main(int argc, char** argv) {
  Args a(argc, argv); string fn = a.s("fn"); const unsigned NU = 3, NE = 4;
  bool directed = a.b("in_directed"); G g(directed);
  // id counters of the verifier's pre-state: as many nodes as the node counter says; the edge counter is pumped by link / unlink pairs
  unsigned hn = a.has("in_hn") ? (unsigned)a.u("in_hn") : NU, he = a.has("in_he") ? (unsigned)a.u("in_he") : 0;
  for (unsigned i = 0; i < hn; ++i) g.createNode();
  if (he > 0 && hn < 1) { cout << "could not rebuild the pre-state: edge ids were handed out but no node id was\n"; return 3; }
  for (unsigned k = 0; k < he; ++k) { g.link(0, 0); g.unlink(0, 0); }
  for (unsigned e = 0; e < NE; ++e) if (a.has("in_ep_" + to_string(e)) && a.b("in_ep_" + to_string(e))) g.link((unsigned)a.u("in_ea_" + to_string(e)), (unsigned)a.u("in_eb_" + to_string(e)), e);
  for (unsigned i = 0; i < hn; ++i) if (!(a.has("in_np_" + to_string(i)) && a.b("in_np_" + to_string(i)))) g.deleteNode(i);
  string why; if (!consistent(g, why)) { cout << "could not rebuild the pre-state: " << why << endl; return 3; }
  unsigned x = a.has("in_a") ? (unsigned)a.u("in_a") : 0, y = a.has("in_b") ? (unsigned)a.u("in_b") : 0, z = a.has("in_x") ? (unsigned)a.u("in_x") : 0;
  cout << fn << ": " << (directed ? "directed" : "undirected") << " graph with " << g.getNumberOfNodes() << " nodes, " << g.getNumberOfEdges() << " edges; arguments " << x << ", " << y << ", " << z << endl;
  bool raised = false; size_t n0 = g.getNumberOfNodes(), e0 = g.getNumberOfEdges();
  try { if (fn.compare(0, 12, "b_deleteNode") == 0) fn = "b_deleteNode";
    if (fn.size() > 5 && fn.compare(fn.size() - 5, 5, "_noop") == 0) fn = fn.substr(0, fn.size() - 5);
    if (fn == "b_link2") g.link(x, y); else if (fn == "b_link3") g.link(x, y, z); else if (fn == "b_unlink") g.unlink(x, y); else if (fn == "b_deleteNode") g.deleteNode(x);
    else if (fn == "b_createNodeFromNode") g.createNodeFromNode(x); else if (fn == "b_createNodeOnEdge") g.createNodeOnEdge(z); else if (fn == "b_switchNodes") g.switchNodes(x, y); else if (fn == "b_makeDirected") g.makeDirected(); else if (fn == "b_makeUndirected") g.makeUndirected(); else { cout << "no native check\n"; return 3; } }
  catch (bpp::Exception& e) { raised = true; cout << "raised: " << e.what() << endl; }
  if (!consistent(g, why)) { cout << "CONFIRMED: after the call the views disagree: " << why << endl; return 1; }
  if (raised) CHECK_POST(g.getNumberOfNodes() == n0 && g.getNumberOfEdges() == e0);
  // the id counters are part of the state: the next links must not be handed an id that is in use
  for (unsigned k = 0; k <= NE + 2; ++k) { Graph::NodeId p = g.createNode(); g.createNodeFromNode(p);
    if (!consistent(g, why)) { cout << "CONFIRMED: " << (k + 1) << " link(s) after the call the views disagree: " << why << endl; return 1; } }
  return verif_failed;
}
