// Native replay of MultiRange / RangeSet counterexamples on the real templates (Range.h is header-only).
// SOURCES: Bpp/Exceptions.cpp Bpp/Text/TextTools.cpp Bpp/Text/StringTokenizer.cpp
#include <Bpp/Numeric/Range.h>
#include "adapters/args.h"
#include <vector>
using namespace bpp; using namespace std;
template<class T> T getv(const Args& a, const string& k);
template<> int getv<int>(const Args& a, const string& k) { return a.i32(k); }
template<> unsigned int getv<unsigned int>(const Args& a, const string& k) { return (unsigned int)a.u(k); }
template<> double getv<double>(const Args& a, const string& k) { return a.d(k); }
#define IN2(b, e, x) ((b) <= (x) && (x) < (e))

template<class T> bool wf(const MultiRange<T>& m) {
  for (size_t i = 0; i < m.size(); ++i) {
    if (!(m.getRange(i).begin() < m.getRange(i).end())) return false;
    if (i + 1 < m.size() && !(m.getRange(i).end() <= m.getRange(i + 1).begin())) return false;
  }
  return true;
}
template<class T> bool mem(const MultiRange<T>& m, T x) { for (size_t i = 0; i < m.size(); ++i) if (IN2(m.getRange(i).begin(), m.getRange(i).end(), x)) return true; return false; }

template<class T> int run(const Args& a, const string& op, int K) {
  vector<T> b(K), e(K);
  for (int i = 0; i < K; ++i) { b[i] = getv<T>(a, "in_b_" + to_string(i)); e[i] = getv<T>(a, "in_e_" + to_string(i)); }
  T rb = a.has("in_rb") ? getv<T>(a, "in_rb") : T(0), re = a.has("in_re") ? getv<T>(a, "in_re") : T(0), x = a.has("in_x") ? getv<T>(a, "in_x") : T(0);
  MultiRange<T> m;
  for (int i = 0; i < K; ++i) m.addRange(Range<T>(b[i], e[i]));
  cout << op << " on " << m.toString() << " with r=[" << rb << "," << re << "[ x=" << x << "\n";
  bool pre = mem(m, x);
  Range<T> r(rb, re);
  if (op.find("restrictTo") != string::npos || op.find("copyctor") != string::npos || op.find("assign") != string::npos) {
    // the state std::sort sees inside clean_(): every stored range sliced by the real sliceWith; the real comparator must be a strict weak ordering on it
    vector<Range<T>> s; for (int i = 0; i < K; ++i) { Range<T> c(b[i], e[i]); c.sliceWith(r); s.push_back(c); }
    rangeComp_<T> comp;
    for (size_t i = 0; i < s.size(); ++i) for (size_t j = 0; j < s.size(); ++j) {
      if (comp(&s[i], &s[j]) && comp(&s[j], &s[i])) { cout << "CONFIRMED: real comparator is not asymmetric on " << s[i].toString() << " and " << s[j].toString() << " (std::sort precondition violated inside MultiRange::clean_)\n"; verif_failed = 1; }
      for (size_t k = 0; k < s.size(); ++k) if (comp(&s[i], &s[j]) && comp(&s[j], &s[k]) && !comp(&s[i], &s[k])) { cout << "CONFIRMED: real comparator is not transitive on " << s[i].toString() << " " << s[j].toString() << " " << s[k].toString() << "\n"; verif_failed = 1; }
    }
    m.restrictTo(r);
    CHECK_POST(wf(m));
    CHECK_POST(mem(m, x) == (pre && IN2(rb, re, x)));
  } else if (op.find("addRange") != string::npos) {
    m.addRange(r);
    CHECK_POST(wf(m));
    CHECK_POST(mem(m, x) == (pre || IN2(rb, re, x)));
    size_t tot = 0; for (size_t i = 0; i < m.size(); ++i) tot += (size_t)(m.getRange(i).end() - m.getRange(i).begin());
    CHECK_POST(m.totalLength() == tot);
  } else if (op.find("filterWithin") != string::npos) {
    m.filterWithin(r);
    size_t j = 0;
    for (int i = 0; i < K; ++i) if (rb <= b[i] && e[i] <= re) { CHECK_POST(j < m.size() && m.getRange(j).begin() == b[i] && m.getRange(j).end() == e[i]); ++j; }
    CHECK_POST(j == m.size());
  } else { cout << "no native check for " << op << "\n"; return 3; }
  cout << "result " << m.toString() << "\n";
  return verif_failed;
}
int main(int argc, char** argv) {
  Args a(argc, argv);
  string fn = a.s("fn");   // job id: b_<op>_<type>_K<k>
  int K = atoi(fn.substr(fn.rfind("_K") + 2).c_str());
  if (fn.find("_uint_") != string::npos) return run<unsigned int>(a, fn, K);
  if (fn.find("_double_") != string::npos) return run<double>(a, fn, K);
  return run<int>(a, fn, K);
}
