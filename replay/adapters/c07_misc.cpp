// Native replay for NumTools::logsum and StatTools::computeFdr counterexamples on the real library code.
// SOURCES: Bpp/Exceptions.cpp Bpp/Text/TextTools.cpp Bpp/Text/StringTokenizer.cpp Bpp/Numeric/Stat/StatTools.cpp
#include <Bpp/Numeric/NumTools.h>
#include <Bpp/Numeric/VectorTools.h>
#include <Bpp/Numeric/Stat/StatTools.h>
#include "adapters/args.h"
#include <cmath>
using namespace bpp; using namespace std;
int main(int argc, char** argv) {
  Args a(argc, argv); string fn = a.s("fn"); cout.precision(17);
  if (fn == "NumTools__logsum") {
    double x = a.d("lnx"), y = a.d("lny"); double r = NumTools::logsum(x, y);
    cout << "logsum(" << x << ", " << y << ") = " << r << endl;
    if (std::isinf(x) && x < 0 && std::isinf(y) && y < 0) CHECK_POST(std::isinf(r) && r < 0);
    if (std::isfinite(x) && std::isfinite(y)) CHECK_POST(r >= std::max(x, y));
    if (fabs(x) <= 1e300 && fabs(y) <= 1e300) CHECK_POST(!std::isnan(r));
  } else if (fn.find("b_fdr_n") == 0) {
    size_t n = stoul(fn.substr(7)); vector<double> p(n); for (size_t i = 0; i < n; ++i) p[i] = a.d("in_p_" + to_string(i));
    vector<double> f = StatTools::computeFdr(p);
    for (size_t k = 0; k < n; ++k) { size_t rank = 1; for (size_t j = 0; j < n; ++j) if (p[j] < p[k]) rank++;
      double e = p[k] * double(n) / double(rank); cout << "p=" << p[k] << " rank=" << rank << " fdr=" << f[k] << " expected=" << e << endl; CHECK_POST(f[k] == e); }
  } else if (fn.find("b_values") == 0 && a.has("in_by")) {
    /* sequence generation clause of the value harness (the other clauses of that harness have no native check) */
    int f = a.i32("in_f"), t = a.i32("in_t"), by = a.i32("in_by"); if (by < 1) return 3;
    vector<int> r = VectorTools::seq<int>(f, t, by); cout << "seq(" << f << ", " << t << ", " << by << ") ="; for (int x : r) cout << " " << x; cout << endl;
    size_t len = size_t(std::abs(f - t) / by) + 1; CHECK_POST(r.size() == len);
    for (size_t k = 0; k < r.size(); ++k) CHECK_POST(r[k] == (f <= t ? f + int(k) * by : f - int(k) * by));
  } else { cout << "no native check for " << fn << endl; return 3; }
  return verif_failed;
}
