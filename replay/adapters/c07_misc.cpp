// Native replay for NumTools::logsum and StatTools::computeFdr counterexamples on the real library code.
// SOURCES: Bpp/Exceptions.cpp Bpp/Text/TextTools.cpp Bpp/Text/StringTokenizer.cpp Bpp/Numeric/Stat/StatTools.cpp
#include <Bpp/Numeric/NumTools.h>
#include <Bpp/Numeric/Stat/StatTools.h>
#include "adapters/args.h"
#include <cmath>
using namespace bpp; using namespace std;
int main(int argc, char** argv) {
  Args a(argc, argv); string fn = a.s("fn"); cout.precision(17);
  if (fn == "NumTools__logsum") {
    double x = a.d("lnx"), y = a.d("lny"); double r = NumTools::logsum(x, y);
    cout << "logsum(" << x << ", " << y << ") = " << r << endl;
    if (std::isinf(x) && x < 0 && std::isinf(y) && y < 0) CHECK_POST(std::isinf(r) && r < 0);
    if (std::isfinite(x) && std::isfinite(y)) CHECK_POST(r >= std::max(x, y));
    if (fabs(x) <= 1e300 && fabs(y) <= 1e300) CHECK_POST(!std::isnan(r));
  } else if (fn.find("b_fdr_n") == 0) {
    size_t n = stoul(fn.substr(7)); vector<double> p(n); for (size_t i = 0; i < n; ++i) p[i] = a.d("in_p_" + to_string(i));
    vector<double> f = StatTools::computeFdr(p);
    for (size_t k = 0; k < n; ++k) { size_t rank = 1; for (size_t j = 0; j < n; ++j) if (p[j] < p[k]) rank++;
      double e = p[k] * double(n) / double(rank); cout << "p=" << p[k] << " rank=" << rank << " fdr=" << f[k] << " expected=" << e << endl; CHECK_POST(f[k] == e); }
  } else { cout << "no native check for " << fn << endl; return 3; }
  return verif_failed;
}
