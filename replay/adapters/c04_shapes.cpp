// Native replay of MatrixTools shape / index-safety counterexamples on the real templates.
// Operands are built with the given shapes (LinearMatrix holds every shape including 0 x n) and filled with 1;
// the library is compiled with _GLIBCXX_ASSERTIONS and ASan, so an out-of-range element access aborts.
// CXXFLAGS: -D_GLIBCXX_ASSERTIONS
// SOURCES: Bpp/Exceptions.cpp Bpp/Text/TextTools.cpp Bpp/Text/StringTokenizer.cpp
#include <Bpp/Numeric/Matrix/MatrixTools.h>
#include "adapters/args.h"
using namespace bpp; using namespace std;
static Args* AR;
static LinearMatrix<double> mat(const string& n) {
  size_t r = AR->has("verif_in_" + n + "_rows") ? AR->u("verif_in_" + n + "_rows") : 0, c = AR->has("verif_in_" + n + "_cols") ? AR->u("verif_in_" + n + "_cols") : 0;
  if (r > 64 || c > 64) { cout << "shape too large for native replay\n"; exit(3); }
  LinearMatrix<double> m(r, c); for (size_t i = 0; i < r; ++i) for (size_t j = 0; j < c; ++j) m(i, j) = 1.;
  return m;
}
static vector<double> vec(const string& n) { size_t k = AR->has("verif_in_" + n + "_n") ? AR->u("verif_in_" + n + "_n") : 0; if (k > 4096) exit(3); return vector<double>(k, 1.); }
#define SHAPE(m) m.getNumberOfRows() << "x" << m.getNumberOfColumns()
#define SAME(X, Y) (X.getNumberOfRows() == Y.getNumberOfRows() && X.getNumberOfColumns() == Y.getNumberOfColumns())
int main(int argc, char** argv) {
  Args a(argc, argv); AR = &a;
  string fn = a.s("fn");
  LinearMatrix<double> A = mat("A"), iA = mat("iA"), B = mat("B"), iB = mat("iB"), O = mat("O"), iO = mat("iO"), M = mat("M");
  vector<double> D = vec("D"), iD = vec("iD"), U = vec("U"), L = vec("L"), VB = vec("B");
  cout << fn << " A=" << SHAPE(A) << " iA=" << SHAPE(iA) << " B=" << SHAPE(B) << " iB=" << SHAPE(iB) << " O=" << SHAPE(O) << " iO=" << SHAPE(iO) << " M=" << SHAPE(M)
       << " |D|=" << D.size() << " |iD|=" << iD.size() << " |U|=" << U.size() << " |L|=" << L.size() << endl;
  bool raised = false, expect = false, known = true;
  double x = 2.;
  try {
    if (fn == "MatrixTools__copyUp") { MatrixTools::copyUp(A, O); }
    else if (fn == "MatrixTools__copyDown") { MatrixTools::copyDown(A, O); }
    else if (fn == "MatrixTools__fillDiag") { MatrixTools::fillDiag(M, x); }
    else if (fn == "MatrixTools__mult3") { expect = A.getNumberOfColumns() != B.getNumberOfRows(); MatrixTools::mult<double>(A, B, O); }
    else if (fn == "MatrixTools__mult_cplx") { expect = A.getNumberOfColumns() != B.getNumberOfRows() || !SAME(iA, A) || !SAME(iB, B); MatrixTools::mult<double>(A, iA, B, iB, O, iO); }
    else if (fn == "MatrixTools__mult_diag") { expect = A.getNumberOfColumns() != B.getNumberOfRows() || D.size() != A.getNumberOfColumns(); MatrixTools::mult<double>(A, D, B, O); }
    else if (fn == "MatrixTools__mult_cplx_diag") { expect = A.getNumberOfColumns() != B.getNumberOfRows() || D.size() != A.getNumberOfColumns() || iD.size() != A.getNumberOfColumns() || !SAME(iA, A) || !SAME(iB, B);
      MatrixTools::mult<double>(A, iA, D, iD, B, iB, O, iO);
      if (!expect) { CHECK_POST(iO.getNumberOfRows() == A.getNumberOfRows() && iO.getNumberOfColumns() == B.getNumberOfColumns()); } }
    else if (fn == "MatrixTools__mult_tridiag") { expect = A.getNumberOfColumns() != B.getNumberOfRows() || D.size() != A.getNumberOfColumns() || U.size() + 1 != A.getNumberOfColumns() || L.size() + 1 != A.getNumberOfColumns(); MatrixTools::mult<double>(A, D, U, L, B, O); }
    else if (fn == "MatrixTools__add") { expect = !SAME(A, B); MatrixTools::add(A, B); }
    else if (fn == "MatrixTools__add_scaled") { expect = !SAME(A, B); MatrixTools::add(A, x, B); }
    else if (fn == "MatrixTools__hadamard") { expect = !SAME(A, B); MatrixTools::hadamardMult<double>(A, B, O); }
    else if (fn == "MatrixTools__hadamard_cplx") { expect = !SAME(A, B) || !SAME(iA, A) || !SAME(iB, B); MatrixTools::hadamardMult<double>(A, iA, B, iB, O, iO); }
    else if (fn == "MatrixTools__directSum") { MatrixTools::directSum<double>(A, B, O); CHECK_POST(O.getNumberOfRows() == A.getNumberOfRows() + B.getNumberOfRows() && O.getNumberOfColumns() == A.getNumberOfColumns() + B.getNumberOfColumns()); }
    else if (fn == "MatrixTools__diag_get") { expect = M.getNumberOfRows() != M.getNumberOfColumns(); vector<double> o; MatrixTools::diag<double>(M, o); }
    else if (fn == "MatrixTools__transpose") { MatrixTools::transpose(A, O); }
    else if (fn == "MatrixTools__copy") { MatrixTools::copy(A, O); }
    else { known = false; }
  } catch (DimensionException& e) { raised = true; cout << "DimensionException: " << e.what() << endl; }
  if (!known) { cout << "no native check for " << fn << "\n"; return 3; }
  cout << "returned, raised=" << raised << " expected=" << expect << endl;
  CHECK_POST(raised == expect);
  return verif_failed;
}
