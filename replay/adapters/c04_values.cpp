// Native replay of bounded entry-value counterexamples: for the concrete shape of the failed run, the real template
// (int instantiation, RowMatrix storage) is compared with the textbook definition on every assignment of the entries
// in {0..DOM} (exhaustive when at most 2^18 assignments, otherwise the first 2^18 in counting order).
// SOURCES: Bpp/Exceptions.cpp Bpp/Text/TextTools.cpp Bpp/Text/StringTokenizer.cpp
#include <Bpp/Numeric/Matrix/MatrixTools.h>
#include "adapters/args.h"
#include <regex>
using namespace bpp; using namespace std;
typedef RowMatrix<int> RM;
static size_t NRA, NCA, NRB, NCB, ND, NU, P; static int ROW;
struct Cells { vector<int*> p; void add(RM& m) { for (size_t i = 0; i < m.getNumberOfRows(); ++i) for (size_t j = 0; j < m.getNumberOfColumns(); ++j) p.push_back(&m(i, j)); }
  void add(vector<int>& v) { for (auto& x : v) p.push_back(&x); } };
static RM matmul(const RM& X, const RM& Y) { RM Z(X.getNumberOfRows(), Y.getNumberOfColumns()); for (size_t i = 0; i < X.getNumberOfRows(); ++i) for (size_t j = 0; j < Y.getNumberOfColumns(); ++j) { int s = 0; for (size_t k = 0; k < X.getNumberOfColumns(); ++k) s += X(i, k) * Y(k, j); Z(i, j) = s; } return Z; }
static bool same(const Matrix<int>& X, const RM& Y) { if (X.getNumberOfRows() != Y.getNumberOfRows() || X.getNumberOfColumns() != Y.getNumberOfColumns()) return false; for (size_t i = 0; i < Y.getNumberOfRows(); ++i) for (size_t j = 0; j < Y.getNumberOfColumns(); ++j) if (X(i, j) != Y(i, j)) return false; return true; }
static void show(const char* n, const RM& m) { cout << n << "=" << m.getNumberOfRows() << "x" << m.getNumberOfColumns() << "["; for (size_t i = 0; i < m.getNumberOfRows(); ++i) { for (size_t j = 0; j < m.getNumberOfColumns(); ++j) cout << m(i, j) << " "; cout << ";"; } cout << "] "; }
static void show(const char* n, const vector<int>& v) { cout << n << "=("; for (int x : v) cout << x << " "; cout << ") "; }
int main(int argc, char** argv) {
  Args a(argc, argv); string id = a.s("fn"); smatch m;
  auto num = [&](const string& re, size_t& x, size_t& y) { regex r(re); if (regex_search(id, m, r)) { x = stoul(m[1]); y = stoul(m[2]); return true; } return false; };
  size_t dummy; num("_A(\\d)x(\\d)", NRA, NCA) || num("_M(\\d)x(\\d)", NRA, NCA); num("_B(\\d)x(\\d)", NRB, NCB);
  { regex r("_v(\\d)"); if (regex_search(id, m, r)) ND = stoul(m[1]); } { regex r("_u(\\d)"); if (regex_search(id, m, r)) NU = stoul(m[1]); }
  { regex r("_p(\\d)"); if (regex_search(id, m, r)) P = stoul(m[1]); } { regex r("_row(\\d)"); if (regex_search(id, m, r)) ROW = stoi(m[1]); }
  int DOM = id.find("b_pow") == 0 ? 2 : 1;
  string fn = id.substr(2, id.find("_A") != string::npos ? id.find("_A") - 2 : (id.find("_M") != string::npos ? id.find("_M") - 2 : id.find("_n") - 2));
  RM A(NRA, NCA), B(NRB, NCB), iA(NRA, NCA), iB(NRB, NCB); vector<int> D(ND), iD(ND), U(NU), L(NU);
  Cells c; c.add(A); bool bin = id.find("_B") != string::npos; if (bin) c.add(B);
  if (fn.find("cplx") != string::npos) { c.add(iA); c.add(iB); }
  if (fn.find("diag") != string::npos || fn == "hadamard_vec") c.add(D);
  if (fn == "mult_cplx_diag") c.add(iD);
  if (fn == "mult_tridiag") { c.add(U); c.add(L); }
  size_t ncell = c.p.size(); double tot = pow((double)(DOM + 1), (double)ncell); size_t lim = tot > 262144. ? 262144 : (size_t)tot;
  cout << fn << " shapes A=" << NRA << "x" << NCA << " B=" << NRB << "x" << NCB << " |D|=" << ND << " |U|=|L|=" << NU << " p=" << P << ": " << lim << " assignments of " << ncell << " entries" << endl;
  for (size_t code = 0; code < lim; ++code) {
    size_t q = code; for (size_t k = 0; k < ncell; ++k) { *c.p[k] = (int)(q % (DOM + 1)); q /= (DOM + 1); }
    RM O(4, 4), iO(4, 4); bool ok = true, raised = false, known = true;
    try {
      if (fn == "mult3") { MatrixTools::mult<int>(A, B, O); ok = same(O, matmul(A, B)); }
      else if (fn == "mult_diag") { MatrixTools::mult<int>(A, D, B, O); RM T(NCA, NCA); for (size_t k = 0; k < NCA; ++k) T(k, k) = D[k]; ok = same(O, matmul(matmul(A, T), B)); }
      else if (fn == "mult_tridiag") { MatrixTools::mult<int>(A, D, U, L, B, O); RM T(NCA, NCA); for (size_t k = 0; k < NCA; ++k) { T(k, k) = D[k]; if (k + 1 < NCA) { T(k, k + 1) = U[k]; T(k + 1, k) = L[k]; } } ok = same(O, matmul(matmul(A, T), B)); }
      else if (fn == "add") { RM A1(A); MatrixTools::add(A1, B); for (size_t i = 0; i < NRA; ++i) for (size_t j = 0; j < NCA; ++j) ok = ok && A1(i, j) == A(i, j) + B(i, j); }
      else if (fn == "hadamard") { MatrixTools::hadamardMult<int>(A, B, O); for (size_t i = 0; i < NRA; ++i) for (size_t j = 0; j < NCA; ++j) ok = ok && O(i, j) == A(i, j) * B(i, j); }
      else if (fn == "directSum") { MatrixTools::directSum<int>(A, B, O); ok = O.getNumberOfRows() == NRA + NRB && O.getNumberOfColumns() == NCA + NCB; for (size_t i = 0; ok && i < NRA + NRB; ++i) for (size_t j = 0; j < NCA + NCB; ++j) ok = ok && O(i, j) == ((i < NRA && j < NCA) ? A(i, j) : (i >= NRA && j >= NCA) ? B(i - NRA, j - NCA) : 0); }
      else if (fn == "kron") { MatrixTools::kroneckerMult<int>(A, B, O); ok = O.getNumberOfRows() == NRA * NRB && O.getNumberOfColumns() == NCA * NCB; for (size_t ia = 0; ok && ia < NRA; ++ia) for (size_t ja = 0; ja < NCA; ++ja) for (size_t ib = 0; ib < NRB; ++ib) for (size_t jb = 0; jb < NCB; ++jb) ok = ok && O(ia * NRB + ib, ja * NCB + jb) == A(ia, ja) * B(ib, jb); }
      else if (fn == "transpose") { MatrixTools::transpose(A, O); ok = O.getNumberOfRows() == NCA && O.getNumberOfColumns() == NRA; for (size_t i = 0; ok && i < NCA; ++i) for (size_t j = 0; j < NRA; ++j) ok = ok && O(i, j) == A(j, i); }
      else if (fn == "copy") { MatrixTools::copy(A, O); ok = same(O, A); }
      else if (fn == "pow") { MatrixTools::pow(A, P, O); RM R(NRA, NRA); for (size_t i = 0; i < NRA; ++i) R(i, i) = 1; for (size_t q2 = 0; q2 < P; ++q2) R = matmul(R, A); ok = same(O, R); }
      else known = false;
    } catch (DimensionException&) { raised = true; }
    if (!known) { cout << "no native check for " << fn << "\n"; return 3; }
    if (!raised && !ok) { cout << "CONFIRMED: real code differs from the textbook definition on "; show("A", A); if (bin) show("B", B); if (ND) show("D", D); if (NU) { show("U", U); show("L", L); } show("result", O); cout << endl; return 1; }
  }
  cout << "no differing assignment found natively\n"; return 0;
}
