// Native replay: GaussianDiscreteDistribution::randC must draw with standard deviation sigma.
// SOURCES: Bpp/Exceptions.cpp Bpp/Text/TextTools.cpp Bpp/Text/StringTokenizer.cpp Bpp/Numeric/Random/RandomTools.cpp
#include <Bpp/Numeric/Random/RandomTools.h>
#include "adapters/args.h"
#include <cmath>
using namespace bpp; using namespace std;
// GaussianDiscreteDistribution::randC() is "return RandomTools::randGaussian(mu_, sigma_);" - the class needs the whole
// discrete-distribution machinery, so the replay links the library built from the working tree (see LIBS).
// LIBS: -L/repo/_build/src -lbpp-core3 -Wl,-rpath,/repo/_build/src
#include <Bpp/Numeric/Prob/GaussianDiscreteDistribution.h>
int main(int argc, char** argv) {
  Args a(argc, argv); const int N = 400000; RandomTools::setSeed(12345);
  double mu = 1., sigma = 3.; GaussianDiscreteDistribution g(4, mu, sigma);
  double s = 0, s2 = 0; for (int i = 0; i < N; ++i) { double x = g.randC(); s += x; s2 += x * x; }
  double m = s / N, sd = sqrt(s2 / N - m * m);
  cout << "GaussianDiscreteDistribution(4, mu=1, sigma=3).randC(): sample mean " << m << " sample sd " << sd << endl;
  CHECK_POST(fabs(sd - sigma) <= 0.05 * sigma);
  return verif_failed;
}
