// key=0xHEX argument access for replay adapters (values are the bit patterns CBMC printed in its trace)
#pragma once
#include <map>
#include <string>
#include <cstring>
#include <cstdint>
#include <cstdlib>
#include <iostream>
struct Args {
  std::map<std::string, std::string> kv;
  Args(int argc, char** argv) {
    for (int i = 1; i < argc; ++i) { std::string a(argv[i]); auto p = a.find('='); if (p != std::string::npos) kv[a.substr(0, p)] = a.substr(p + 1); }
  }
  bool has(const std::string& k) const { return kv.count(k) != 0; }
  std::string s(const std::string& k) const { auto it = kv.find(k); if (it == kv.end()) { std::cerr << "missing input " << k << "\n"; exit(3); } return it->second; }
  uint64_t u(const std::string& k) const { return strtoull(s(k).c_str(), 0, 16); }
  long i(const std::string& k) const { return (long)(int64_t)u(k); }
  int i32(const std::string& k) const { return (int)(int32_t)(uint32_t)u(k); }
  bool b(const std::string& k) const { return u(k) != 0; }
  double d(const std::string& k) const { uint64_t x = u(k); double r; memcpy(&r, &x, 8); return r; }
};
static int verif_failed = 0;
#define CHECK_POST(cond) do { if (!(cond)) { std::cout << "CONFIRMED: real code violates: " #cond "\n"; verif_failed = 1; } } while (0)
