// Native replay of number-grammar counterexamples: the bytes of the string and the two special characters come from
// the trace; the real TextTools::isDecimalNumber / isDecimalInteger / toDouble / toInt are compared with the DFA.
// SOURCES: Bpp/Exceptions.cpp Bpp/Text/TextTools.cpp Bpp/Text/StringTokenizer.cpp
#include <Bpp/Text/TextTools.h>
#include <Bpp/Exceptions.h>
#include "adapters/args.h"
#include "../units/spec_C17.h"
using namespace bpp; using namespace std;
int main(int argc, char** argv) {
  Args a(argc, argv); string id = a.s("fn");
  size_t L = stoul(id.substr(id.rfind("len") + 3));
  string s; for (size_t i = 0; i < L; ++i) s += (char)a.u("in_c_" + to_string(i));
  char sci = (char)a.u("in_sci");
  bool integer = id.find("integer") != string::npos;
  char dec = integer ? '.' : (char)a.u("in_dec");
  cout << (integer ? "isDecimalInteger" : "isDecimalNumber") << "(\"" << s << "\", dec='" << dec << "', sci='" << sci << "')" << endl;
  int q = Q0; for (size_t i = 0; i < L; ++i) q = integer ? step_integer(q, s[i], sci) : step_number(q, s[i], dec, sci);
  bool acc = integer ? ACCEPT_INTEGER(q) : ACCEPT_NUMBER(q);
  bool r = integer ? TextTools::isDecimalInteger(s, sci) : TextTools::isDecimalNumber(s, dec, sci);
  cout << "real code: " << r << "  grammar: " << acc << endl;
  CHECK_POST(r == acc);
  bool raised = false;
  try { if (integer) TextTools::toInt(s, sci); else TextTools::toDouble(s, dec, sci); } catch (bpp::Exception&) { raised = true; }
  CHECK_POST(raised == !acc);
  return verif_failed;
}
