#!/bin/bash
# confirm a seeded change in its scratch worktree: usage seed_confirm.sh <prop> <seed dir> ; prints CONFIRMED / REJECTED
P=$1; D=$2; WT=/tmp/wt_$P
set -u
cd $WT || exit 2
git checkout -q -- . ; git apply --check $D/patch.diff || { echo "REJECTED: patch does not apply"; exit 1; }
build() { cmake --build $WT/_build -j16 > /tmp/seed_build.log 2>&1; }
demo() { g++ -std=c++14 -I$WT/src $D/demo.cpp -L$WT/_build/src -lbpp-core3 -Wl,-rpath,$WT/_build/src -o /tmp/seed_demo 2>/tmp/seed_demo_build.log && timeout 60 /tmp/seed_demo > /tmp/seed_demo.out 2>&1; }
[ -d $WT/_build ] || cmake -G Ninja -S $WT -B $WT/_build -DCMAKE_BUILD_TYPE=Release > /dev/null
build || { echo "REJECTED: clean build failed"; exit 1; }
demo; rc0=$?
git apply $D/patch.diff
build || { echo "REJECTED: does not compile"; git checkout -q -- .; exit 1; }
ctest --test-dir $WT/_build -j8 --timeout 900 > /tmp/seed_ctest.log 2>&1; t=$?
demo; rc1=$?
git checkout -q -- .; build
if [ $rc0 -eq 0 ] && [ $t -eq 0 ] && [ $rc1 -ne 0 ]; then echo "CONFIRMED demo_clean=$rc0 tests_with_change=pass demo_with_change=$rc1"; exit 0; fi
echo "REJECTED demo_clean=$rc0 ctest=$t demo_with_change=$rc1"; exit 1
