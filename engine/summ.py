#!/usr/bin/env python3
"""compact summary of a check log: per job, the first failing obligations (max 3) and undecided reasons"""
import sys, re, collections
jobs = collections.OrderedDict()
for ln in sys.stdin:
    m = re.match(r"\s+failed obligation: \[(\S+)\] (.*) \(.*\) in job (\S+)", ln)
    if m:
        jobs.setdefault(m.group(3), []).append('%s: %s' % (m.group(1), m.group(2)[:90]))
    elif ln.startswith('UNDECIDED'):
        print(ln.strip()[:220])
    elif ln.startswith('property='):
        print(ln.strip())
PRI = ('postcondition', 'precondition', 'loop_invariant_base', 'loop_invariant_step', 'loop_decreases', 'assertion')
for j, fs in jobs.items():
    fs.sort(key=lambda f: min([i for i, p in enumerate(PRI) if p in f] + [9]))
    print('%s (%d failing): %s' % (j, len(fs), ' | '.join(fs[:3])))
