#!/usr/bin/env python3
"""cxx2c: lower clang-14's typed JSON AST of real bpp-core functions to C for CBMC.

The C text produced here is regenerated from /repo's working tree on every run.
Nothing is taken from a hand-written copy of the code: every statement of the
emitted function comes from an AST node of the real function.  Any node kind,
type or callee this lowering has no rule for raises ExtractionBreak (exit 2 in
the runner) - never a violation.

Conventions of the emitted C (the stub headers in /verif/stubs are written
against them):
  * class C (namespace bpp stripped)            -> struct / typedef  mangle(C)
  * method C::m(args)                            -> C__m(self, args)
  * operator C::operator()(i,j)                  -> C__op_call(self, i, j)
  * constructor C::C(args) with n parameters     -> C__ctor_<n>(self, args)   (and C__make_<n>(args) by value)
  * T& / const T& parameters, locals, returns    -> T*   (glvalue arguments are passed by address,
                                                    temporaries bound to references become C99 compound literals)
  * throw E(...)                                 -> verif_exc = EXC_<E>; leave the function (or jump to the handler)
  * after a call to a may-throw callee           -> if (verif_exc) leave / jump to handler
  * loops                                        -> /*@LOOP<n>@*/ marker after the loop header (contract attached by the runner)
"""
import json, os, re, subprocess, hashlib, sys

class ExtractionBreak(Exception):
    pass

# ----------------------------------------------------------------------------
# AST loading
# ----------------------------------------------------------------------------
def run_clang(tu_text, filt, workdir, tag, extra_flags=()):
    os.makedirs(workdir, exist_ok=True)
    src = os.path.join(workdir, tag + '.tu.cpp')
    with open(src, 'w') as f:
        f.write(tu_text)
    out = os.path.join(workdir, tag + '.ast.json')
    cmd = ['clang++-14', '-std=c++14', '-I/repo/src', '-fsyntax-only', '-Wno-everything',
           '-Xclang', '-ast-dump=json', '-Xclang', '-ast-dump-filter=' + filt] + list(extra_flags) + [src]
    with open(out, 'w') as fo:
        p = subprocess.run(cmd, stdout=fo, stderr=subprocess.PIPE, text=True)
    if p.returncode != 0:
        raise ExtractionBreak('clang failed on %s: %s' % (tag, p.stderr[-2000:]))
    return load_ast(out)

def load_ast(path):
    s = open(path).read()
    dec = json.JSONDecoder()
    i = 0
    objs = []
    n = len(s)
    while i < n:
        while i < n and s[i] in ' \n\r\t':
            i += 1
        if i >= n:
            break
        if s[i] != '{':
            j = s.find('\n', i)
            i = j + 1 if j >= 0 else n
            continue
        o, i = dec.raw_decode(s, i)
        _fill_locs(o)
        objs.append(o)
    return objs

def _fill_locs(root):
    """clang prints file/line only when they change; make them absolute (stored as node['_file'], node['_line'])."""
    st = {'file': None, 'line': None}
    def upd(loc):
        if not isinstance(loc, dict):
            return
        if 'spellingLoc' in loc or 'expansionLoc' in loc:
            if 'spellingLoc' in loc: upd(loc['spellingLoc'])
            if 'expansionLoc' in loc: upd(loc['expansionLoc'])
            return
        if 'file' in loc:
            st['file'] = loc['file']
        if 'line' in loc:
            st['line'] = loc['line']
    def rec(n):
        for k, v in list(n.items()):
            if k == 'loc':
                upd(v)
            elif k == 'range':
                upd(v.get('begin'))
                n['_file'], n['_line'] = st['file'], st['line']
                upd(v.get('end'))
                n['_endline'] = st['line']
            elif k == 'inner':
                for c in v:
                    if isinstance(c, dict):
                        rec(c)
    rec(root)

# ----------------------------------------------------------------------------
# Index of records and function definitions
# ----------------------------------------------------------------------------
FUNC_KINDS = ('FunctionDecl', 'CXXMethodDecl', 'CXXConstructorDecl', 'CXXDestructorDecl', 'CXXConversionDecl')

class Index:
    def __init__(self):
        self.funcs = []     # dicts: qname, node, mangled, type, targs
        self.records = {}   # qualified record name (with template args) -> node

    def add_objs(self, objs, top_prefix=None):
        self.decl_q = getattr(self, 'decl_q', {})
        for o in objs:
            self._collect_ids(o, self._ctx_of(o, top_prefix))
        for o in objs:
            self._walk(o, self._ctx_of(o, top_prefix))

    def _collect_ids(self, n, ctx):
        k = n.get('kind')
        if k == 'NamespaceDecl':
            for c in n.get('inner', []):
                self._collect_ids(c, (ctx + '::' if ctx else '') + n.get('name', ''))
        elif k in ('CXXRecordDecl', 'ClassTemplateSpecializationDecl'):
            name = n.get('name')
            if not name:
                return
            if k == 'ClassTemplateSpecializationDecl':
                ta = [c for c in n.get('inner', []) if c.get('kind') == 'TemplateArgument']
                name = name + '<' + ', '.join(_targ_str(a) for a in ta) + '>'
            q = ctx + '::' + name if ctx else name
            for c in n.get('inner', []):
                self._collect_ids(c, q)
        elif k in ('ClassTemplateDecl', 'FunctionTemplateDecl', 'LinkageSpecDecl'):
            for c in n.get('inner', []):
                self._collect_ids(c, ctx)
        elif k in FUNC_KINDS:
            if 'previousDecl' not in n and 'id' in n:
                self.decl_q[n['id']] = ctx
                self.decl_static = getattr(self, 'decl_static', {})
                self.decl_static[n['id']] = (n.get('storageClass') == 'static')

    def _ctx_of(self, o, top_prefix):
        # top-level dumped decl: qualified name is not in the JSON for nested records/functions; the caller gives
        # the namespace prefix (default 'bpp')
        return top_prefix if top_prefix is not None else 'bpp'

    def _walk(self, n, ctx, targs=None):
        k = n.get('kind')
        if k == 'NamespaceDecl':
            nctx = (ctx + '::' if ctx else '') + n.get('name', '')
            for c in n.get('inner', []):
                self._walk(c, nctx)
        elif k in ('CXXRecordDecl', 'ClassTemplateSpecializationDecl'):
            name = n.get('name')
            if not name or not n.get('completeDefinition'):
                return
            if k == 'ClassTemplateSpecializationDecl':
                ta = [c for c in n.get('inner', []) if c.get('kind') == 'TemplateArgument']
                name = name + '<' + ', '.join(_targ_str(a) for a in ta) + '>'
            q = ctx + '::' + name if ctx else name
            if n.get('inner'):
                self.records[norm_class(q)] = n
            for c in n.get('inner', []):
                self._walk(c, q)
        elif k == 'ClassTemplateDecl':
            for c in n.get('inner', []):
                if c.get('kind') == 'ClassTemplateSpecializationDecl':
                    self._walk(c, ctx)
        elif k == 'FunctionTemplateDecl':
            for c in n.get('inner', []):
                if c.get('kind') in FUNC_KINDS:
                    ta = [x for x in c.get('inner', []) if x.get('kind') == 'TemplateArgument']
                    if ta:   # an instantiation (the pattern has no TemplateArgument children)
                        self._walk(c, ctx, [_targ_str(a) for a in ta])
        elif k in FUNC_KINDS:
            has_body = any(c.get('kind') in ('CompoundStmt', 'CXXTryStmt') for c in n.get('inner', []))
            if not has_body:
                return
            name = n.get('name')
            # out-of-line definitions: the dumped node sits at namespace level; its class comes from the
            # in-class declaration it redeclares
            if n.get('previousDecl') in self.decl_q:
                ctx = self.decl_q[n['previousDecl']]
                if getattr(self, 'decl_static', {}).get(n['previousDecl']):
                    n['storageClass'] = 'static'    # static member function defined out of line
            q = ctx + '::' + name if ctx else name
            self.funcs.append(dict(qname=q, name=name, node=n, mangled=n.get('mangledName'),
                                   type=n['type']['qualType'], targs=targs, ctx=ctx, kind=k))
        elif k == 'LinkageSpecDecl':
            for c in n.get('inner', []):
                self._walk(c, ctx)

    def find(self, qname, sig=None, mangled=None, targs=None):
        c = [f for f in self.funcs if norm_class(f['qname']) == norm_class(qname)]
        if mangled:
            c = [f for f in c if f['mangled'] == mangled]
        if sig:
            if sig.startswith('='):
                c = [f for f in c if sig[1:].replace('bpp::', '').replace(' ', '') == f['type'].replace('bpp::', '').replace(' ', '')]
            else:
                c = [f for f in c if sig.replace('bpp::', '') in f['type'].replace('bpp::', '')]
        if targs is not None:
            c = [f for f in c if f['targs'] == targs]
        # identical redeclarations dumped twice (filter matches both record and out-of-line def): dedupe by mangled
        seen = {}
        for f in c:
            seen.setdefault(f['mangled'] or id(f), f)
        c = list(seen.values())
        if len(c) != 1:
            raise ExtractionBreak('function %s (sig=%s targs=%s): %d candidates: %s' %
                                  (qname, sig, targs, len(c), [(f['type'], f['targs']) for f in c]))
        return c[0]

def _targ_str(a):
    if 'type' in a:
        return a['type']['qualType']
    if 'value' in a:
        return str(a['value'])
    return '?'

# ----------------------------------------------------------------------------
# Types
# ----------------------------------------------------------------------------
BUILTIN = {
    'bool': '_Bool', '_Bool': '_Bool', 'char': 'char', 'signed char': 'signed char', 'unsigned char': 'unsigned char',
    'short': 'short', 'unsigned short': 'unsigned short', 'int': 'int', 'unsigned int': 'unsigned int',
    'unsigned': 'unsigned int', 'long': 'long', 'unsigned long': 'unsigned long', 'long long': 'long long',
    'unsigned long long': 'unsigned long long', 'float': 'float', 'double': 'double', 'long double': 'long double',
    'void': 'void', 'size_t': 'unsigned long', 'std::size_t': 'unsigned long', 'uint': 'unsigned int',
    'ptrdiff_t': 'long', 'std::ptrdiff_t': 'long',
}

def strip_cv(t):
    t = t.strip().replace('*const', '* const').replace('&const', '& const')
    changed = True
    while changed:
        changed = False
        for q in ('const ', 'volatile ', 'struct ', 'class ', 'typename '):
            if t.startswith(q):
                t = t[len(q):].strip(); changed = True
        for q in (' const', ' volatile'):
            if t.endswith(q):
                t = t[:-len(q)].strip(); changed = True
    return t

TYPE_ALIASES = {}    # typedef names that clang leaves sugared inside template arguments -> canonical spelling (filled per unit)

def norm_class(t):
    """canonical spelling of a class type used as key in tables"""
    t = strip_cv(t)
    for k_, v_ in TYPE_ALIASES.items():
        if k_ in t:
            t = re.sub(r'(?<![A-Za-z0-9_:])(?:bpp::)?' + re.escape(k_) + r'(?![A-Za-z0-9_])', v_, t)
    t = t.replace('std::__cxx11::', 'std::')
    # drop allocator / traits default template arguments
    t = re.sub(r',\s*std::allocator<[^<>]*(<[^<>]*>)?[^<>]*>\s*', '', t)
    t = re.sub(r',\s*std::char_traits<char>', '', t)
    t = re.sub(r',\s*allocator<[^<>]*(<[^<>]*>)?[^<>]*>\s*', '', t)
    t = re.sub(r',\s*char_traits<char>', '', t)
    t = re.sub(r'\s+>', '>', t)
    if t in ('basic_string<char>', 'std::string', 'string'):
        t = 'std::basic_string<char>'
    t = re.sub(r'(?<![A-Za-z0-9_])std::string(?![A-Za-z0-9_])', 'std::basic_string<char>', t)
    t = re.sub(r'(?<![A-Za-z0-9_:])(vector|shared_ptr|unique_ptr|deque|map|set|pair)<', r'std::\1<', t)
    t = t.replace('bpp::', '')
    t = re.sub(r'(?<![A-Za-z0-9_])(?:std::)?size_t(?![A-Za-z0-9_])', 'unsigned long', t)
    t = re.sub(r'(?<![A-Za-z0-9_])uint(?![A-Za-z0-9_])', 'unsigned int', t)
    return t

MANGLE_ALIAS = {'std::basic_string<char>': 'Str', 'std::string': 'Str'}

def mangle(t):
    t = norm_class(t)
    if t in MANGLE_ALIAS:
        return MANGLE_ALIAS[t]
    if t in BUILTIN:
        t = BUILTIN[t]
    if t.endswith('*'):
        return 'p_' + mangle(t[:-1])
    pl = ptrlike(t)
    if pl is not None:
        return 'p_' + mangle(pl)
    for pre, nm in (('std::vector<', 'Vec_'), ('std::deque<', 'Deq_'), ('bpp::Vector<', 'Vec_')):
        if t.startswith(pre) and t.endswith('>'):
            return nm + mangle(t[len(pre):-1])
    if t.startswith('bpp::'):
        t = t[5:]
    t = t.replace('bpp::', '')
    t = t.replace('unsigned long', 'ulong').replace('unsigned int', 'uint').replace('long double', 'ldouble')
    t = re.sub(r'[^A-Za-z0-9_]+', '_', t).strip('_')
    return t

PTRLIKE_RE = re.compile(r'^(?:std::)?(shared_ptr|unique_ptr|__shared_ptr|__shared_ptr_access|weak_ptr)<')

def ptrlike(t):
    """pointee type string when t is a smart-pointer class (identity = raw pointer; ownership is not modelled)"""
    t = norm_class(t)
    m = PTRLIKE_RE.match(t)
    if not m:
        return None
    i = m.end(); d = 0; j = i
    while j < len(t):
        ch = t[j]
        if ch == '<': d += 1
        elif ch == '>':
            if d == 0: break
            d -= 1
        elif ch == ',' and d == 0:
            break
        j += 1
    # the class must end at the closing '>' of this template-id (no nested-name like ::element_type)
    k = j; d = 0
    while k < len(t):
        if t[k] == '<': d += 1
        elif t[k] == '>':
            if d == 0: break
            d -= 1
        k += 1
    if t[k + 1:].strip() not in ('',):
        return None
    return t[i:j].strip()

ITER_RE = re.compile(r'^(?:__gnu_cxx::)?__normal_iterator<')
RITER_RE = re.compile(r'^std::reverse_iterator<(.*)>$')

def riterlike(t):
    """pointer type when t is std::reverse_iterator over a vector/string iterator: modelled as a raw pointer one past the
    element it designates (as in the standard: *r == *(r.base() - 1)), moving in the opposite direction"""
    t = norm_class(t)
    m = RITER_RE.match(t)
    if not m:
        return None
    return iterlike(m.group(1))


def iterlike(t):
    """pointer type string P when t is __gnu_cxx::__normal_iterator<P, C> (vector / string iterators = raw pointers)"""
    t = norm_class(t)
    if t.endswith('::_Self'):
        t = t[:-len('::_Self')]
    md = re.match(r'^std::_Deque_iterator<', t)
    if md:
        # std::_Deque_iterator<T, Ref, Ptr>: a deque iterator is modelled as a raw pointer Ptr into contiguous storage
        i = md.end(); d = 0; j = i; parts = []; cur = ''
        for ch in t[i:-1]:
            if ch == '<': d += 1
            elif ch == '>': d -= 1
            if ch == ',' and d == 0:
                parts.append(cur.strip()); cur = ''
            else:
                cur += ch
        parts.append(cur.strip())
        return parts[2] if len(parts) >= 3 else parts[0] + ' *'
    m = ITER_RE.match(t)
    if not m:
        return None
    i = m.end(); d = 0; j = i
    while j < len(t):
        ch = t[j]
        if ch == '<': d += 1
        elif ch == '>':
            if d == 0: break
            d -= 1
        elif ch == ',' and d == 0:
            break
        j += 1
    return t[i:j].strip()

MAPITER_RE = re.compile(r'^std::_Rb_tree_(?:const_)?iterator<(.*)>$')

def mapiterlike(t):
    """entry type E when t is an iterator of std::map / std::set (std::_Rb_tree_iterator<E>): modelled as E* into an entry table
    with an end sentinel; ++ goes to the next present entry (VERIF_MAP_NEXT)"""
    t = norm_class(t)
    if t.endswith('::_Self'):
        t = t[:-len('::_Self')]
    m = MAPITER_RE.match(t)
    if not m:
        return None
    return m.group(1).strip()

def element_type_alias(t):
    """std::__shared_ptr_access<T,...>::element_type -> T"""
    m = re.match(r'^(std::__shared_ptr_access<.*>)::element_type$', t)
    if m:
        return ptrlike(m.group(1))
    return None

class Types:
    def __init__(self, table=None):
        self.table = dict(table or {})   # norm_class string -> C type name

    def qt(self, tobj):
        if isinstance(tobj, str):
            return tobj
        return tobj.get('desugaredQualType') or tobj['qualType']

    def is_ref(self, tobj):
        t = self.qt(tobj).strip()
        return t.endswith('&')

    def base(self, t):
        """C type for a non-reference, non-pointer C++ type string"""
        t0 = strip_cv(t)
        if t0 in TYPE_ALIASES and TYPE_ALIASES[t0] in BUILTIN:
            return BUILTIN[TYPE_ALIASES[t0]]      # a unit may narrow a builtin type (long double computed as double), stated in its evidence
        if t0 in BUILTIN:
            return BUILTIN[t0]
        k = norm_class(t0)
        if k in BUILTIN:
            return BUILTIN[k]
        ea = element_type_alias(k)
        if ea:
            return self.base(ea)
        if k in self.table:
            return self.table[k]
        if re.match(r'^[A-Za-z_][A-Za-z0-9_:<>, *]*$', k):
            return mangle(k)
        raise ExtractionBreak('no C type for %r' % t)

    def c(self, tobj):
        """C type string for a C++ type (references and pointers -> pointers)"""
        for cand in self._cands(tobj):
            try:
                return self._c(cand)
            except ExtractionBreak as e:
                last = e
        raise last

    def _cands(self, tobj):
        if isinstance(tobj, str):
            return [tobj]
        r = []
        if 'desugaredQualType' in tobj:
            r.append(tobj['desugaredQualType'])
        r.append(tobj['qualType'])
        return r

    def _c(self, t):
        t = t.strip()
        if t.endswith('&&'):
            return self._c(t[:-2]) + '*'
        if t.endswith('&'):
            return self._c(t[:-1]) + '*'
        t2 = strip_cv(t)
        if t2.endswith('*'):
            return self._c(t2[:-1]) + '*'
        pl = ptrlike(t2)
        if pl is not None:
            return self._c(pl) + '*'
        il = iterlike(t2)
        if il is not None:
            return self._c(il)
        ril = riterlike(t2)
        if ril is not None:
            return self._c(ril)
        mil = mapiterlike(t2)
        if mil is not None:
            return self._c(mil) + '*'
        m = re.match(r'^(.*)\[(\d+)\]$', t2)
        if m:
            return self._c(m.group(1)) + '*'
        return self.base(t2)

    def cls(self, tobj):
        """class key of an object expression type (pointer/reference stripped)"""
        t = self.qt(tobj).strip()
        t = strip_cv(t)
        while t.endswith('*') or t.endswith('&'):
            t = strip_cv(t[:-1])
        t = norm_class(t)
        ea = element_type_alias(t)
        return norm_class(ea) if ea else t

    def is_scalar(self, tobj):
        t = strip_cv(self.qt(tobj))
        if t.endswith('*') or ptrlike(t) is not None or iterlike(t) is not None or riterlike(t) is not None or mapiterlike(t) is not None or t in ('std::nullptr_t', 'nullptr_t'):
            return True
        return t in BUILTIN or t.startswith('enum ')

# ----------------------------------------------------------------------------
# Lowering
# ----------------------------------------------------------------------------
OPNAMES = {'()': 'op_call', '[]': 'op_index', '=': 'op_assign', '==': 'op_eq', '!=': 'op_ne', '<': 'op_lt',
           '>': 'op_gt', '<=': 'op_le', '>=': 'op_ge', '+': 'op_plus', '-': 'op_minus', '*': 'op_mul', '/': 'op_div',
           '+=': 'op_pluseq', '-=': 'op_minuseq', '*=': 'op_muleq', '/=': 'op_diveq', '&': 'op_and', '&=': 'op_andeq',
           '<<': 'op_shl', '>>': 'op_shr', '!': 'op_not', '++': 'op_inc', '--': 'op_dec', '->': 'op_arrow',
           '&&': 'op_land', '||': 'op_lor', '%': 'op_mod', '|': 'op_or', '^': 'op_xor'}

def cname_of_member(name):
    if name.startswith('operator'):
        op = name[len('operator'):].strip()
        if op in OPNAMES:
            return OPNAMES[op]
        return 'conv_' + mangle(op)
    if name.startswith('~'):
        return 'dtor'
    return name

TRANSPARENT = ('ExprWithCleanups', 'CXXBindTemporaryExpr', 'ParenExpr', 'ConstantExpr', 'SubstNonTypeTemplateParmExpr')

def unwrap(n):
    while n.get('kind') in TRANSPARENT or (n.get('kind') in ('ImplicitCastExpr',) and n.get('castKind') in ('NoOp',)):
        n = n['inner'][0]
    return n

class Cfg:
    """per-unit lowering configuration"""
    def __init__(self, types=None, rename=None, free=None, defaults=None, drop=None, throws=None,
                 plain=None, consts=None, exc_tree=None, dyncast=None, range_for=None, ghost_fields=None, ctor_tag=None, uf_ops=None, struct_fields=None, type_aliases=None):
        TYPE_ALIASES.clear(); TYPE_ALIASES.update(type_aliases or {})
        def nk(k):
            if isinstance(k, tuple) and len(k) >= 2 and k[0] == 'ctor':
                return (k[0], norm_class(k[1])) + tuple(k[2:])
            if isinstance(k, tuple) and len(k) >= 2:
                return (norm_class(k[0]),) + tuple(k[1:])
            return k
        types = {norm_class(k): v for k, v in (types or {}).items()}
        rename = {nk(k): v for k, v in (rename or {}).items()}
        plain = {norm_class(k) for k in (plain or ())}
        range_for = {norm_class(k): v for k, v in (range_for or {}).items()}
        ghost_fields = {norm_class(k): v for k, v in (ghost_fields or {}).items()}
        ctor_tag = {norm_class(k): v for k, v in (ctor_tag or {}).items()}
        self.types = Types(types)
        self.rename = dict(rename or {})      # (class, member, arity[, sig]) -> C name
        self.free = dict(free or {})          # (name[, type]) -> C name   for free / static functions
        self.defaults = dict(defaults or {})  # (cname, argindex) -> C expression for defaulted arguments
        self.drop = set(drop or ())           # C names / member names of calls that are dropped (diagnostic output)
        self.throws = set(throws or ())       # C names that may raise
        self.plain = set(plain or ())         # class keys that are plain structs: copy = struct assignment
        self.consts = dict(consts or {})      # DeclRefExpr names of variables/enumerators -> C text
        self.exc_tree = dict(exc_tree or {})  # exception class -> parent class
        self.dyncast = dict(dyncast or {})
        self.range_for = dict(range_for or {})  # class key -> (size fn, at fn)
        self.ghost_fields = dict(ghost_fields or {})
        self.ctor_tag = dict(ctor_tag or {})   # class key -> statement run after the base initialisers (dynamic type tag)
        self.struct_fields = {norm_class(k): list(v) for k, v in (struct_fields or {}).items()}   # class -> the only fields kept in its struct
        self.uf_ops = dict(uf_ops or {})       # floating-point operators abstracted by uninterpreted functions: opcode -> C function

class FnLower:
    def __init__(self, cfg, finfo, cname, index=None):
        self.cfg = cfg
        self.T = cfg.types
        self.f = finfo
        self.cname = cname
        self.index = index
        self.refs = {}        # decl id -> True when the C variable is a pointer standing for a reference
        self.nloops = 0
        self.callees = set()
        self.tmpn = 0
        self.catch_stack = []
        self.ret_c = None
        self.ret_is_ref = False
        self.dropped = []
        self.lines = []
        self.self_cls = None
        self.local_names = {}
        self.pre = []          # statements hoisted before the current statement
        self.locals = set()    # ids of local (non-static) variables

    # ---- helpers
    def brk(self, n, why):
        raise ExtractionBreak('%s: %s at %s:%s [%s]' % (self.cname, why, n.get('_file'), n.get('_line'), n.get('kind')))

    def tmp(self, base='verif_t'):
        self.tmpn += 1
        return '%s%d' % (base, self.tmpn)

    def default_ret(self):
        if self.ret_c == 'void':
            return 'return;'
        if self.ret_c.endswith('*') or self.ret_c in BUILTIN.values():
            return 'return 0;'
        return 'return (%s){0};' % self.ret_c

    def leave(self):
        if self.catch_stack:
            return 'goto %s;' % self.catch_stack[-1]
        return self.default_ret()

    def chk(self):
        return 'if (verif_exc) %s' % self.leave()

    @staticmethod
    def addr(e):
        e = e.strip()
        m = re.match(r'^\(\*(.*)\)$', e)
        if m and _balanced(m.group(1)):
            return m.group(1)
        return '&(%s)' % e

    @staticmethod
    def deref(e):
        e = e.strip()
        m = re.match(r'^&\((.*)\)$', e)
        if m and _balanced(m.group(1)):
            return '(%s)' % m.group(1)
        return '(*%s)' % e

    # ---- function
    def lower(self):
        n = self.f['node']
        kind = self.f['kind']
        ftype = self.f['type']
        is_method = kind in ('CXXMethodDecl', 'CXXConstructorDecl', 'CXXDestructorDecl', 'CXXConversionDecl')
        is_static = n.get('storageClass') == 'static'
        params = []
        cls = None
        if is_method and not is_static:
            cls = norm_class(self.f['ctx'])
            self.self_cls = cls
            params.append('%s* self' % self.T.base(cls))
        elif is_method:
            self.self_cls = norm_class(self.f['ctx'])
        pnodes = [c for c in n.get('inner', []) if c.get('kind') == 'ParmVarDecl']
        for i, p in enumerate(pnodes):
            pname = p.get('name') or ('verif_unnamed%d' % i)
            ct = self.T.c(p['type'])
            if self.T.is_ref(p['type']):
                self.refs[p['id']] = True
            params.append('%s %s' % (ct, pname))
        # return type
        if kind == 'CXXConstructorDecl' or kind == 'CXXDestructorDecl':
            self.ret_c = 'void'
        else:
            rt = _ret_type(ftype)
            self.ret_is_ref = rt.strip().endswith('&')
            self.ret_c = self.T._c(rt)
        self.nparams = len(pnodes)
        self.sig = '%s %s(%s)' % (self.ret_c, self.cname, ', '.join(params) if params else 'void')
        body = []
        if kind == 'CXXConstructorDecl':
            tagged = False
            for c in n.get('inner', []):
                if c.get('kind') == 'CXXCtorInitializer':
                    if 'anyInit' in c and not tagged and cls in self.cfg.ctor_tag:
                        body.append(self.cfg.ctor_tag[cls]); tagged = True
                    body += self.ctor_init(c)
            if not tagged and cls in self.cfg.ctor_tag:
                body.append(self.cfg.ctor_tag[cls])
        comp = [c for c in n.get('inner', []) if c.get('kind') in ('CompoundStmt', 'CXXTryStmt')]
        self.labels = {}
        def _labels(x):
            if isinstance(x, dict):
                if x.get('kind') == 'LabelStmt':
                    self.labels[x.get('declId')] = x.get('name')
                for v in x.get('inner', []) or []:
                    _labels(v)
        for s in comp:
            _labels(s)
        for s in comp:
            body += self.stmt(s)
        self.body = body
        self.src_file = n.get('_file'); self.src_line = n.get('_line'); self.src_end = n.get('_endline')
        return self

    def text(self, contract=''):
        out = []
        out.append('/* extracted from %s:%s-%s  %s  [%s] */' % (self.src_file, self.src_line, self.src_end, self.f['qname'], self.f['type']))
        out.append(self.sig)
        if contract:
            out.append(contract)
        out.append('{')
        out += ['  ' + l for l in self.body]
        out.append('}')
        return '\n'.join(out)

    def ctor_init(self, c):
        inner = c.get('inner', [])
        if 'anyInit' in c:
            fld = c['anyInit']['name']
            if not inner:
                return []
            e = inner[0]
            ft = c['anyInit']['type']
            if self.T.is_scalar(ft) or self.T.is_ref(ft):
                if self.T.is_ref(ft):
                    v = self.addr(self.expr(e))
                else:
                    v = self.expr(e)
                return self.flush_pre() + ['self->%s = %s;' % (fld, v)]
            # class-typed member
            u = unwrap(e)
            if u.get('kind') == 'CXXConstructExpr':
                st = self.construct_into('self->%s' % fld, u)
                return self.flush_pre() + st
            v = self.expr(e)
            return self.flush_pre() + ['self->%s = %s;' % (fld, v)]
        if 'baseInit' in c:
            bcls = norm_class(c['baseInit']['qualType'])
            if not inner:
                return []
            u = unwrap(inner[0])
            if u.get('kind') == 'CXXConstructExpr':
                args = [a for a in u.get('inner', [])]
                if not args and bcls not in self.cfg.rename.get('__base_ctor__', ()):  # default ctor of a base
                    key = ('ctor', bcls, 0)
                    if key in self.cfg.rename:
                        self.callees.add(self.cfg.rename[key])
                        return ['%s((%s*)self);' % (self.cfg.rename[key], self.T.base(bcls))]
                    return []
                st = self.construct_into('(*(%s*)self)' % self.T.base(bcls), u)
                return self.flush_pre() + st
            self.brk(c, 'base initializer')
        self.brk(c, 'ctor initializer')

    def flush_pre(self):
        p = self.pre
        self.pre = []
        return p

    # ---- statements
    def stmt(self, n):
        k = n.get('kind')
        if k is None:
            return []
        m = getattr(self, 's_' + k, None)
        if m is None:
            if 'valueCategory' in n or k.endswith('Expr') or k.endswith('Operator') or k.endswith('Literal'):
                return self.s_expr(n)
            self.brk(n, 'statement kind without a lowering rule')
        ln = ['#line %d "%s"' % (n['_line'], n['_file'])] if n.get('_line') and n.get('_file') else []
        return ln + m(n)

    def block(self, n):
        """lower a statement as a braced block body (list of lines)"""
        if n.get('kind') == 'CompoundStmt':
            r = []
            for c in n.get('inner', []):
                r += self.stmt(c)
            return r
        return self.stmt(n)

    def s_CompoundStmt(self, n):
        return ['{'] + ['  ' + l for l in self.block(n)] + ['}']

    def s_NullStmt(self, n):
        return [';']

    def s_expr(self, n):
        has_throw = self.has_throwing_call(n)
        e = self.expr(n, stmt=True)
        r = self.flush_pre()
        if e is not None and e != '':
            r.append('%s;' % e)
        if has_throw:
            r.append(self.chk())
        return r

    def s_DeclStmt(self, n):
        r = []
        for d in n.get('inner', []):
            if d.get('kind') == 'VarDecl':
                r += self.vardecl(d)
            elif d.get('kind') in ('TypedefDecl', 'TypeAliasDecl', 'UsingDecl', 'StaticAssertDecl', 'UsingDirectiveDecl'):
                pass
            else:
                self.brk(d, 'declaration kind')
        return r

    def vardecl(self, d):
        self.locals.add(d.get('id'))
        name = d['name']
        t = d['type']
        init = d.get('inner', [])
        init = [c for c in init if c.get('kind') not in ('FullComment',)]
        ct = self.T.c(t)
        if d.get('storageClass') == 'static':
            self.brk(d, 'static local')
        r = []
        if self.T.is_ref(t):
            self.refs[d['id']] = True
            if not init:
                self.brk(d, 'reference without initializer')
            thr = self.has_throwing_call(init[0])
            e = self.ref_bind(init[0])
            r += self.flush_pre()
            r.append('%s %s = %s;' % (ct, name, e))
            if thr: r.append(self.chk())
            return r
        qt = self.T.qt(t)
        am = re.match(r'^(.*)\[(\d+)\]$', strip_cv(qt))
        if am:
            et = self.T._c(am.group(1))
            if init:
                u = unwrap(init[0])
                if u.get('kind') == 'InitListExpr':
                    vals = [self.expr(x) for x in u.get('inner', [])]
                    r += self.flush_pre()
                    r.append('%s %s[%s] = {%s};' % (et, name, am.group(2), ', '.join(vals)))
                    return r
                self.brk(d, 'array initializer')
            r.append('%s %s[%s];' % (et, name, am.group(2)))
            return r
        if not init:
            if self.T.is_scalar(t):
                r.append('%s %s;' % (ct, name))
            else:
                self.brk(d, 'class-typed local without initializer node')
            return r
        e0 = init[0]
        thr = self.has_throwing_call(e0)
        if self.T.is_scalar(t):
            e = self.expr(e0)
            r += self.flush_pre()
            r.append('%s %s = %s;' % (ct, name, e))
        else:
            u = unwrap(e0)
            if u.get('kind') == 'CXXConstructExpr':
                st = self.construct_into(name, u, decl=ct)
                r += self.flush_pre()
                r += st
            else:
                e = self.expr(e0)
                r += self.flush_pre()
                r.append('%s %s = %s;' % (ct, name, e))
        if thr:
            r.append(self.chk())
        return r

    def construct_into(self, target, u, decl=None):
        """statements constructing an object of class type in place: target is an lvalue text"""
        cls = self.T.cls(u['type'])
        if ptrlike(cls) is not None or iterlike(cls) is not None or riterlike(cls) is not None or mapiterlike(cls) is not None:
            return [('%s %s = %s;' % (decl, target, self.expr(u))) if decl else '%s = %s;' % (target, self.expr(u))]
        cty = self.T.base(cls)
        args = ctor_args(u)
        r = []
        if decl:
            r.append('%s %s;' % (decl, target))
        # copy / move construction
        if len(args) == 1 and self.is_copy_ctor(u):
            a = args[0]
            src = self.expr(a)
            if u.get('elidable') or a.get('valueCategory') == 'prvalue' or unwrap_mat(a).get('valueCategory') == 'prvalue':
                r.append('%s = %s;' % (target, self.prvalue_of(a)))
            elif cls in self.cfg.plain:
                r.append('%s = %s;' % (target, src))
            else:
                fn = self.resolve_ctor(cls, 'copy', u)
                sp = self.addr(src)
                if self.has_throwing_call(a):
                    # the source comes from a may-throw call: leave before copying from the result of a raising callee
                    tn = self.tmp('verif_h')
                    r.append('%s* %s = %s;' % (cty, tn, sp))
                    r.append(self.chk())
                    sp = tn
                r.append('%s(%s, %s);' % (fn, self.addr(target), sp))
            return r
        if not args and cls in self.cfg.plain and ('ctor', cls, 0) not in self.cfg.rename:
            return r      # implicit default constructor of a plain class: no effect
        fn = self.resolve_ctor(cls, len(args), u)
        al = self.args(fn, args)
        r.append('%s(%s);' % (fn, ', '.join([self.addr(target)] + al)))
        return r

    def is_copy_ctor(self, u):
        ct = u.get('ctorType', {}).get('qualType', '')
        cls = self.T.cls(u['type'])
        m = re.match(r'^void \((.*)\)( noexcept)?$', ct)
        if not m:
            return False
        p = m.group(1).strip()
        if ',' in _strip_templates(p):
            return False
        if not (p.endswith('&') or p.endswith('&&')):
            return False
        return norm_class(p.rstrip('&').strip()) == cls

    def prvalue_of(self, a):
        """expression text of a class-typed argument that is (a materialised) prvalue"""
        u = a
        while u.get('kind') in TRANSPARENT + ('MaterializeTemporaryExpr',) or (u.get('kind') == 'ImplicitCastExpr' and u.get('castKind') in ('NoOp', 'ConstructorConversion')):
            u = u['inner'][0]
        return self.expr(u)

    def resolve_ctor(self, cls, arity, u):
        sig = u.get('ctorType', {}).get('qualType', '')
        for key in (('ctor', cls, arity, sig), ('ctor', cls, arity)):
            if key in self.cfg.rename:
                fn = self.cfg.rename[key]
                break
        else:
            fn = '%s__ctor_%s' % (self.T.table.get(cls) or mangle(cls), arity)
        self.callees.add(fn)
        return fn

    def s_ReturnStmt(self, n):
        inner = n.get('inner', [])
        if not inner:
            return ['return;']
        e0 = inner[0]
        if self.ret_is_ref:
            e = self.addr(self.expr(e0))
        else:
            u = unwrap(e0)
            e = None
            if u.get('kind') == 'CXXConstructExpr' and self.is_copy_ctor(u) and len(u.get('inner', [])) == 1:
                a = unwrap_casts(u['inner'][0])
                rd = a.get('referencedDecl', {})
                if a.get('kind') == 'DeclRefExpr' and rd.get('kind') == 'VarDecl' and rd.get('id') not in self.refs and rd.get('id') in self.locals:
                    # returning a local by value: move / NRVO - the local's storage becomes the result
                    e = self.expr(a)
            if e is None:
                e = self.expr(e0)
        r = self.flush_pre()
        r.append('return %s;' % e)
        return r

    def cond(self, n):
        """condition expression; may-throw calls inside conditions are hoisted for if, refused for loops"""
        return self.expr(n)

    def s_IfStmt(self, n):
        inner = n.get('inner', [])
        if n.get('hasInit') or n.get('hasVar'):
            self.brk(n, 'if with init/var')
        c = inner[0]
        thr = self.has_throwing_call(c)
        # probe: does an operand that is only evaluated conditionally (right of && / ||, arm of ?:) need hoisted statements?
        save = self.pre; self.pre = []
        self.sc_probe, self.sc_hit = True, False
        try:
            ce = self.expr(c)
        finally:
            self.sc_probe = False
        hoisted = self.pre; self.pre = save
        if self.sc_hit:
            # short-circuit evaluation by statements: temporaries of the right operand exist only when it is evaluated
            t = self.tmp('verif_c')
            r = self.flush_pre()
            r.append('_Bool %s = 0;' % t)
            r += self.cond_stmts(c, t)
            ce = t
            thr = True
        else:
            self.pre += hoisted
            r = self.flush_pre()
            if thr:
                t = self.tmp('verif_c')
                r.append('_Bool %s = %s;' % (t, ce))
                r.append(self.chk())
                ce = t
        r.append('if (%s) {' % ce)
        r += ['  ' + l for l in self.block(inner[1])]
        if len(inner) > 2:
            r.append('} else {')
            r += ['  ' + l for l in self.block(inner[2])]
        r.append('}')
        if thr:
            r = ['{'] + ['  ' + l for l in r] + ['}']
        return r

    def loop_marker(self):
        self.nloops += 1
        return '/*@LOOP%d@*/' % self.nloops

    def s_ForStmt(self, n):
        init, condvar, cond, inc, body = (n['inner'] + [{}] * 5)[:5]
        r = ['{']
        if init:
            r += ['  ' + l for l in self.stmt(init)]
        if condvar:
            self.brk(n, 'for with condition variable')
        if cond and self.has_throwing_call(cond):
            self.brk(n, 'may-throw call in loop condition')
        ce = self.expr(cond) if cond else '1'
        if self.pre: self.brk(n, 'hoisted temporary in loop condition')
        ie = self.expr(inc, stmt=True) if inc else ''
        if self.pre: self.brk(n, 'hoisted temporary in loop increment')
        if inc and self.has_throwing_call(inc):
            self.brk(n, 'may-throw call in loop increment')
        mark = self.loop_marker()
        r.append('  for (; %s; %s)' % (ce, ie))
        r.append('  ' + mark)
        r.append('  {')
        r += ['    ' + l for l in self.block(body)]
        r.append('  }')
        r.append('}')
        return r

    def cond_stmts(self, n, var):
        """statements that evaluate condition n into the _Bool variable var, with short-circuit evaluation and an
        exception check after every may-throw call (used where the condition cannot be a plain C expression)"""
        u = n
        while u.get('kind') in TRANSPARENT:
            u = u['inner'][0]
        if u.get('kind') == 'BinaryOperator' and u.get('opcode') in ('&&', '||'):
            a, b = u['inner']
            r = self.cond_stmts(a, var)
            inner = self.cond_stmts(b, var)
            r.append('if (%s%s) {' % ('' if u['opcode'] == '&&' else '!', var))
            r += ['  ' + l for l in inner]
            r.append('}')
            return r
        thr = self.has_throwing_call(u)
        e = self.expr(u)
        r = self.flush_pre()
        r.append('%s = %s;' % (var, e))
        if thr:
            r.append(self.chk())
        return r

    def s_WhileStmt(self, n):
        inner = n['inner']
        if len(inner) != 2:
            self.brk(n, 'while with condition variable')
        cond, body = inner
        if not self.has_throwing_call(cond):
            save = self.pre; self.pre = []
            ce = self.expr(cond)
            hoisted = self.pre; self.pre = save
            if not hoisted:
                mark = self.loop_marker()
                r = ['while (%s)' % ce, mark, '{']
                r += ['  ' + l for l in self.block(body)]
                r.append('}')
                return r
        # general form: the condition is evaluated by statements at the head of the loop body
        mark = self.loop_marker()
        cv = self.tmp('verif_w')
        r = ['while (1)', mark, '{', '  _Bool %s = 0;' % cv]
        r += ['  ' + l for l in self.cond_stmts(cond, cv)]
        r.append('  if (!%s) break;' % cv)
        r += ['  ' + l for l in self.block(body)]
        r.append('}')
        return r

    def s_DoStmt(self, n):
        body, cond = n['inner']
        if self.has_throwing_call(cond):
            self.brk(n, 'may-throw call in loop condition')
        mark = self.loop_marker()
        bl = self.block(body)
        ce = self.expr(cond)
        if self.pre: self.brk(n, 'hoisted temporary in loop condition')
        r = ['do', mark, '{']
        r += ['  ' + l for l in bl]
        r.append('} while (%s);' % ce)
        return r

    def s_GotoStmt(self, n):
        # C has goto: the label name is looked up among the LabelStmt nodes of the function
        tgt = n.get('targetLabelDeclId')
        name = self.labels.get(tgt)
        if name is None:
            self.brk(n, 'goto to an unknown label')
        return ['goto %s;' % name]

    def s_LabelStmt(self, n):
        r = ['%s: ;' % n['name']]
        for c in n.get('inner', []):
            r += self.stmt(c)
        return r

    def s_BreakStmt(self, n):
        return ['break;']

    def s_ContinueStmt(self, n):
        return ['continue;']

    def s_SwitchStmt(self, n):
        inner = n['inner']
        ce = self.expr(inner[0])
        r = self.flush_pre()
        r.append('switch (%s) {' % ce)
        r += ['  ' + l for l in self.block(inner[1])]
        r.append('}')
        return r

    def s_CaseStmt(self, n):
        inner = n['inner']
        v = self.expr(inner[0])
        r = ['case %s:' % v]
        r += self.stmt(inner[-1])
        return r

    def s_DefaultStmt(self, n):
        return ['default:'] + self.stmt(n['inner'][0])

    def s_CXXTryStmt(self, n):
        inner = n['inner']
        lbl = self.tmp('verif_catch')
        end = self.tmp('verif_endtry')
        self.catch_stack.append(lbl)
        body = self.block(inner[0])
        self.catch_stack.pop()
        r = ['{'] + ['  ' + l for l in body]
        r.append('  goto %s;' % end)
        r.append('  %s: ;' % lbl)
        for c in inner[1:]:
            if c.get('kind') != 'CXXCatchStmt':
                self.brk(c, 'try child')
            ci = c.get('inner', [])
            var = ci[0] if ci and ci[0].get('kind') == 'VarDecl' else None
            hbody = ci[-1]
            if var is None and len(ci) == 1:
                condc = '1'          # catch (...)
            else:
                ecls = self.T.cls(var['type'])
                condc = 'verif_exc_isa(verif_exc, EXC_%s)' % mangle(ecls)
                # the exception object itself is not modelled: a use that survives the lowering fails to compile (exit 2)
            hb = self.handler_block(hbody)
            r.append('  if (%s) {' % condc)
            r.append('    verif_exc_caught = verif_exc; verif_exc = 0;')
            r += ['    ' + l for l in hb]
            r.append('    goto %s;' % end)
            r.append('  }')
        r.append('  %s' % self.leave())
        r.append('  %s: ;' % end)
        r.append('}')
        return r

    def handler_block(self, n):
        return self.block(n)

    def s_CXXForRangeStmt(self, n):
        inner = n['inner']
        # [init?, range decl, begin decl, end decl, cond, inc, loopvar decl, body]
        decls = [c for c in inner if c.get('kind') == 'DeclStmt']
        rangedecl = decls[0]['inner'][0]
        loopvar = decls[-1]['inner'][0]
        body = inner[-1]
        rinit = rangedecl['inner'][0]
        cls = self.T.cls(rangedecl['type'])
        if cls not in self.cfg.range_for:
            self.brk(n, 'range-for over %s' % cls)
        if self.cfg.range_for[cls][0] == 'ITER':
            # associative container: iterate over the present entries
            _, begin_fn, end_fn = self.cfg.range_for[cls]
            self.callees.update([begin_fn, end_fn])
            rng = 'verif_rng%d' % (self.nloops + 1)
            it = 'verif_it%d' % (self.nloops + 1)
            re_ = self.ref_bind(rinit)
            r = ['{']
            r += ['  ' + l for l in self.flush_pre()]
            r.append('  %s %s = %s;' % (self.T.c(rangedecl['type']), rng, re_))
            mark = self.loop_marker()
            vt = self.T.c(loopvar['type'])
            et = vt if self.T.is_ref(loopvar['type']) else vt + '*'
            r.append('  for (%s %s = %s(%s); %s != %s(%s); %s = VERIF_MAP_NEXT(%s))' % (et, it, begin_fn, rng, it, end_fn, rng, it, it))
            r.append('  ' + mark)
            r.append('  {')
            if self.T.is_ref(loopvar['type']):
                self.refs[loopvar['id']] = True
                r.append('    %s %s = %s;' % (vt, loopvar['name'], it))
            else:
                r.append('    %s %s = *%s;' % (vt, loopvar['name'], it))
            r += ['    ' + l for l in self.block(body)]
            r.append('  }')
            r.append('}')
            return r
        size_fn, at_fn = self.cfg.range_for[cls]
        self.callees.update([size_fn, at_fn])
        rng = 'verif_rng%d' % (self.nloops + 1)
        idx = 'verif_i%d' % (self.nloops + 1)
        re_ = self.ref_bind(rinit)
        r = ['{']
        r += ['  ' + l for l in self.flush_pre()]
        r.append('  %s %s = %s;' % (self.T.c(rangedecl['type']), rng, re_))
        mark = self.loop_marker()
        r.append('  for (unsigned long %s = 0; %s < %s(%s); ++%s)' % (idx, idx, size_fn, rng, idx))
        r.append('  ' + mark)
        r.append('  {')
        vt = self.T.c(loopvar['type'])
        if self.T.is_ref(loopvar['type']):
            self.refs[loopvar['id']] = True
            r.append('    %s %s = %s(%s, %s);' % (vt, loopvar['name'], at_fn, rng, idx))
        else:
            if not self.T.is_scalar(loopvar['type']) and self.T.cls(loopvar['type']) not in self.cfg.plain:
                self.brk(n, 'range-for by value over a non-plain class')
            r.append('    %s %s = *%s(%s, %s);' % (vt, loopvar['name'], at_fn, rng, idx))
        r += ['    ' + l for l in self.block(body)]
        r.append('  }')
        r.append('}')
        return r

    # ---- expressions
    def has_throwing_call(self, n):
        if not isinstance(n, dict) or not n:
            return False
        k = n.get('kind')
        if k in ('CallExpr', 'CXXMemberCallExpr', 'CXXOperatorCallExpr', 'CXXConstructExpr', 'CXXTemporaryObjectExpr', 'CXXNewExpr', 'CXXDynamicCastExpr'):
            try:
                fn = self.callee_name(n)
            except ExtractionBreak:
                fn = None
            if fn is not None and (fn in self.cfg.throws):
                return True
        if k == 'LambdaExpr':
            return False
        return any(self.has_throwing_call(c) for c in n.get('inner', []))

    def callee_name(self, n):
        """C name of the function a call-like node invokes (None when the node lowers to no call)"""
        k = n['kind']
        if k == 'CXXMemberCallExpr':
            me = unwrap(n['inner'][0])
            if me.get('kind') != 'MemberExpr':
                self.brk(n, 'member call through %s' % me.get('kind'))
            obj = me['inner'][0]
            cls = self.T.cls(obj['type'])
            if ptrlike(cls) is not None or iterlike(cls) is not None:
                return None
            nargs = len(n['inner']) - 1
            oq = strip_cv(self.T.qt(obj['type'])) if False else self.T.qt(obj['type']).strip()
            this_const = oq.startswith('const ') or ' const' in oq.replace('* const', '*')
            return self.resolve_member(cls, me['name'], nargs, n, argsig=self.argsig(n['inner'][1:]), this_const=this_const)
        if k == 'CXXOperatorCallExpr':
            cal = unwrap_casts(n['inner'][0])
            rd = cal.get('referencedDecl', {})
            name = rd.get('name')
            args = n['inner'][1:]
            if args and any(ptrlike(self.T.cls(a['type'])) is not None for a in args[:2]) and name in ('operator->', 'operator*', 'operator=', 'operator==', 'operator!=', 'operator bool'):
                return None
            if args and (iterlike(self.T.cls(args[0]['type'])) is not None or riterlike(self.T.cls(args[0]['type'])) is not None or mapiterlike(self.T.cls(args[0]['type'])) is not None):
                return None
            if rd.get('kind') == 'CXXMethodDecl':
                cls = self.T.cls(args[0]['type'])
                return self.resolve_member(cls, name, len(args) - 1, n, sig=rd.get('type', {}).get('qualType'), argsig=self.argsig(args[1:]))
            return self.resolve_free(name, rd.get('type', {}).get('qualType'), len(args), n, argnodes=args)
        if k == 'CallExpr':
            cal = unwrap_casts(n['inner'][0])
            if cal.get('kind') == 'DeclRefExpr':
                rd = cal['referencedDecl']
                return self.resolve_free(rd['name'], rd.get('type', {}).get('qualType'), len(n['inner']) - 1, n, argnodes=n['inner'][1:])
            if cal.get('kind') == 'MemberExpr':
                # static member called through an object
                return self.resolve_free(cal['name'], None, len(n['inner']) - 1, n, argnodes=n['inner'][1:])
            self.brk(n, 'indirect call')
        if k in ('CXXConstructExpr', 'CXXTemporaryObjectExpr'):
            cls = self.T.cls(n['type'])
            if ptrlike(cls) is not None or iterlike(cls) is not None or riterlike(cls) is not None or mapiterlike(cls) is not None:
                return None
            if self.is_copy_ctor(n) and len(n.get('inner', [])) == 1:
                a = n['inner'][0]
                if n.get('elidable') or unwrap_mat(a).get('valueCategory') == 'prvalue' or cls in self.cfg.plain:
                    return None
                return self.resolve_ctor(cls, 'copy', n)
            return self.resolve_ctor(cls, len(ctor_args(n)), n)
        if k == 'CXXNewExpr':
            return None
        if k == 'CXXDynamicCastExpr':
            tgt = self.T.cls(n['type'])
            if n.get('valueCategory') == 'lvalue':
                return 'DYNCASTREF__%s' % mangle(tgt)
            return None
        return None

    def argsig(self, argnodes):
        """C types of the explicit arguments, used to tell overloads apart: e.g. 'char*,unsigned long'"""
        out = []
        for a in argnodes:
            if a.get('kind') == 'CXXDefaultArgExpr':
                out.append('default')
                continue
            try:
                t = self.T.c(a['type'])
            except ExtractionBreak:
                t = '?'
            out.append(t)
        return ','.join(out)

    def resolve_member(self, cls, name, nargs, n, sig=None, argsig=None, this_const=None):
        keys = []
        if this_const is not None: keys.append((cls, name, nargs, 'this:const' if this_const else 'this:mut'))
        if argsig is not None: keys.append((cls, name, nargs, 'args:' + argsig))
        if sig: keys.append((cls, name, nargs, sig))
        keys += [(cls, name, nargs), (cls, name)]
        for key in keys:
            if key in self.cfg.rename:
                fn = self.cfg.rename[key]
                break
        else:
            fn = '%s__%s' % (self.T.table.get(cls) or mangle(cls), cname_of_member(name))
        self.callees.add(fn)
        return fn

    def resolve_free(self, name, ftype, nargs, n, argnodes=None):
        keys = [(name, ftype, nargs), (name, ftype), (name, nargs), (name,)]
        if name.startswith('operator') and argnodes:
            # free operators are keyed by the classes of their operands
            acls = tuple(self.T.cls(a['type']) for a in argnodes)
            keys = [(name,) + acls] + keys
        fn = None
        for key in keys:
            if key in self.cfg.free:
                fn = self.cfg.free[key]
                if isinstance(fn, list):     # [(substring of the callee's type, C name), ...]
                    for sub, cn in fn:
                        if sub.replace('bpp::', '') in (ftype or '').replace('bpp::', ''):
                            fn = cn
                            break
                    else:
                        fn = None
                        continue
                break
        if fn is None:
            if name.startswith('operator'):
                acls = [mangle(self.T.cls(a['type'])) for a in (argnodes or [])]
                fn = '%s__%s' % (cname_of_member(name), '__'.join(acls))
            else:
                fn = name
        self.callees.add(fn)
        return fn

    def ref_bind(self, e):
        """pointer expression for binding expression e to a reference"""
        u = e
        while u.get('kind') in TRANSPARENT:
            u = u['inner'][0]
        if u.get('kind') == 'MaterializeTemporaryExpr':
            inner = u['inner'][0]
            t = self.T.c(u['type'])
            v = self.expr(inner)
            # temporary bound to a reference: hoist into a named temporary so that its address is stable
            tn = self.tmp()
            self.pre.append('%s %s = %s;' % (t, tn, v))
            return '&%s' % tn
        if u.get('valueCategory') in ('lvalue', 'xvalue'):
            v = u
            while v.get('kind') in TRANSPARENT or (v.get('kind') == 'ImplicitCastExpr' and v.get('castKind') == 'NoOp'):
                v = v['inner'][0]
            if v.get('kind') == 'ConditionalOperator':
                # C has no conditional lvalues: select between the two addresses
                c, a, b = v['inner']
                return '(%s ? %s : %s)' % (self.expr(c), self.ref_bind(a), self.ref_bind(b))
            return self.addr(self.expr(u))
        t = self.T.c(u['type'])
        tn = self.tmp()
        self.pre.append('%s %s = %s;' % (t, tn, self.expr(u)))
        return '&%s' % tn

    def args(self, fn, argnodes):
        out = []
        for i, a in enumerate(argnodes):
            if a.get('kind') == 'CXXDefaultArgExpr':
                key = (fn, i)
                if key not in self.cfg.defaults:
                    self.brk(a, 'defaulted argument %d of %s has no entry in the defaults table' % (i, fn))
                out.append(self.cfg.defaults[key])
                continue
            out.append(self.arg(a))
        return out

    def arg(self, a):
        u = a
        while u.get('kind') in TRANSPARENT:
            u = u['inner'][0]
        thr = self.has_throwing_call(u)
        if u.get('kind') == 'MaterializeTemporaryExpr' or u.get('valueCategory') in ('lvalue', 'xvalue'):
            # string literals decay to pointers: they are prvalues after the decay cast, handled below
            e = self.ref_bind(u)
            ctype = None
            try:
                ctype = self.T.c(u['type']) + '*'
            except ExtractionBreak:
                pass
        else:
            e = self.expr(u)
            ctype = None
            try:
                ctype = self.T.c(u['type'])
            except ExtractionBreak:
                pass
        if thr and ctype is not None and not e.startswith('&verif_t'):
            # a may-throw call inside an argument: evaluate it first and leave if it raised, so that the outer call is not
            # executed on the garbage result of a raising callee
            tn = self.tmp('verif_h')
            self.pre.append('%s %s = %s;' % (ctype, tn, e))
            self.pre.append(self.chk())
            return tn
        return e

    def call(self, fn, argtexts, n):
        if fn in self.cfg.drop:
            self.dropped.append(fn)
            return None
        e = '%s(%s)' % (fn, ', '.join(argtexts))
        if n.get('valueCategory') in ('lvalue', 'xvalue') and self.T.qt(n['type']) != 'void':
            e = '(*%s)' % e
        return e

    def expr(self, n, stmt=False):
        k = n.get('kind')
        m = getattr(self, 'e_' + k, None)
        if m is None:
            self.brk(n, 'expression kind without a lowering rule')
        r = m(n) if not stmt else (m(n, stmt=True) if k in ('CallExpr', 'CXXMemberCallExpr', 'CXXOperatorCallExpr', 'ExprWithCleanups', 'ParenExpr', 'CXXBindTemporaryExpr', 'CXXDeleteExpr', 'CXXThrowExpr') else m(n))
        if r is None and not stmt:
            self.brk(n, 'dropped call used as a value')
        return r

    def e_ExprWithCleanups(self, n, stmt=False):
        return self.expr(n['inner'][0], stmt)
    e_CXXBindTemporaryExpr = e_ExprWithCleanups
    e_ConstantExpr = e_ExprWithCleanups
    e_SubstNonTypeTemplateParmExpr = e_ExprWithCleanups

    def e_MaterializeTemporaryExpr(self, n):
        return self.expr(n['inner'][0])

    def e_ParenExpr(self, n, stmt=False):
        r = self.expr(n['inner'][0], stmt)
        return None if r is None else '(%s)' % r

    def e_IntegerLiteral(self, n):
        t = self.T.c(n['type'])
        v = n['value']
        suf = {'unsigned long': 'UL', 'long': 'L', 'unsigned int': 'U', 'long long': 'LL', 'unsigned long long': 'ULL'}.get(t, '')
        return v + suf

    def e_FloatingLiteral(self, n):
        v = n['value']
        if re.match(r'^-?\d+$', v):
            v += '.0'
        t = self.T.c(n['type'])
        if t == 'float':
            v += 'f'
        elif t == 'long double':
            v += 'L'
        return v

    def e_CXXBoolLiteralExpr(self, n):
        return '1' if n['value'] else '0'

    def e_CharacterLiteral(self, n):
        return '((char)%d)' % n['value']

    def e_StringLiteral(self, n):
        return n['value']

    def e_CXXNullPtrLiteralExpr(self, n):
        return '0'
    e_GNUNullExpr = e_CXXNullPtrLiteralExpr

    def e_CXXScalarValueInitExpr(self, n):
        return '((%s)0)' % self.T.c(n['type'])
    e_ImplicitValueInitExpr = e_CXXScalarValueInitExpr

    def e_CXXThisExpr(self, n):
        return 'self'

    def e_DeclRefExpr(self, n):
        rd = n['referencedDecl']
        name = rd.get('name')
        kind = rd.get('kind')
        if kind in ('ParmVarDecl', 'VarDecl', 'BindingDecl'):
            if rd['id'] in self.refs:
                return '(*%s)' % name
            if name in self.cfg.consts:
                return self.cfg.consts[name]
            return name
        if kind == 'EnumConstantDecl':
            if name in self.cfg.consts:
                return self.cfg.consts[name]
            return name
        if kind in ('FunctionDecl', 'CXXMethodDecl'):
            self.brk(n, 'function used as a value (%s)' % name)
        if kind == 'NonTypeTemplateParmDecl':
            self.brk(n, 'non-type template parameter')
        self.brk(n, 'reference to %s' % kind)

    def e_MemberExpr(self, n):
        obj = n['inner'][0]
        name = n['name']
        if self.T.qt(n['type']) == '<bound member function type>':
            self.brk(n, 'bound member function used as a value')
        if name in self.cfg.consts:
            return self.cfg.consts[name]     # static data member reached through an object (s.npos)
        o = self.expr(obj)
        cls = self.T.cls(obj['type'])
        key = (cls, name, 'field')
        if key in self.cfg.rename:
            name = self.cfg.rename[key]
        if n.get('isArrow'):
            e = '%s->%s' % (o, name)
        else:
            m = re.match(r'^\(\*(.*)\)$', o)
            if m and _balanced(m.group(1)):
                e = '%s->%s' % (m.group(1), name)
            else:
                e = '%s.%s' % (o, name)
        if self.T.is_ref(self.field_type(cls, name, n)):
            e = '(*%s)' % e
        return e

    def field_type(self, cls, name, n):
        # reference-typed fields are rare; look them up in the index when available
        if self.index is not None:
            rec = self.index.records.get(cls)
            if rec:
                for c in rec.get('inner', []):
                    if c.get('kind') == 'FieldDecl' and c.get('name') == name:
                        return c['type']
        return n['type']

    def e_ArraySubscriptExpr(self, n):
        a, i = n['inner']
        return '%s[%s]' % (self.expr(a), self.expr(i))

    def e_UnaryOperator(self, n):
        op = n['opcode']
        e = self.expr(n['inner'][0])
        if op == '&':
            return self.addr(e)
        if op == '*':
            return self.deref(e)
        if op == '__extension__':
            return e
        if n.get('isPostfix'):
            return '(%s%s)' % (e, op)
        return '(%s%s)' % (op, e)

    def e_BinaryOperator(self, n):
        op = n['opcode']
        a, b = n['inner']
        if op == '=' and not self.T.is_scalar(n['type']):
            cls = self.T.cls(n['type'])
            if cls not in self.cfg.plain:
                self.brk(n, 'builtin assignment of class %s' % cls)
        if op in ('&&', '||'):
            ea = self.expr(a)
            npre = len(self.pre)
            eb = self.expr(b)
            if len(self.pre) != npre:
                # the right operand needs hoisted statements (a temporary, a may-throw call): evaluating them unconditionally
                # would not be the semantics of the operator
                if getattr(self, 'sc_probe', False):
                    self.sc_hit = True
                else:
                    self.brk(n, 'hoisted temporary in the right operand of %s outside an if / loop condition' % op)
            return '(%s %s %s)' % (ea, op, eb)
        ea, eb = self.expr(a), self.expr(b)
        if op == ',':
            return '(%s, %s)' % (ea, eb)
        if getattr(self.cfg, 'uf_int_ops', None) and op in self.cfg.uf_int_ops and self.T.c(n['type']) in ('unsigned long', 'unsigned int', 'long', 'int') \
                and (not getattr(self.cfg, 'uf_names', None) or re.search(self.cfg.uf_names, ea + ' ' + eb)):
            return '%s(%s, %s)' % (self.cfg.uf_int_ops[op], ea, eb)      # integer operator abstracted for this function (the unit states the axioms)
        if self.cfg.uf_ops and self.T.c(n['type']) in ('double', 'float') and (not getattr(self.cfg, 'uf_names', None) or re.search(self.cfg.uf_names, ea + ' ' + eb)):
            # arithmetic abstraction (stated in the unit): the operator is an uninterpreted function of its operands
            if op in self.cfg.uf_ops:
                return '%s(%s, %s)' % (self.cfg.uf_ops[op], ea, eb)
            if op.endswith('=') and op[:-1] in self.cfg.uf_ops:
                return '(%s = %s(%s, %s))' % (ea, self.cfg.uf_ops[op[:-1]], ea, eb)
        return '(%s %s %s)' % (ea, op, eb)
    e_CompoundAssignOperator = e_BinaryOperator

    def e_ConditionalOperator(self, n):
        c, a, b = n['inner']
        ec = self.expr(c)
        npre = len(self.pre)
        ea, eb = self.expr(a), self.expr(b)
        if len(self.pre) != npre:
            self.brk(n, 'hoisted temporary in an arm of the conditional operator')
        return '(%s ? %s : %s)' % (ec, ea, eb)

    def cast(self, n):
        ck = n.get('castKind')
        inner = n['inner'][0] if n.get('inner') else None
        if ck in ('LValueToRValue', 'NoOp', 'FunctionToPointerDecay', 'ArrayToPointerDecay', 'ConstructorConversion',
                  'UserDefinedConversion', 'BuiltinFnToFnPtr', 'AtomicToNonAtomic'):
            return self.expr(inner)
        e = self.expr(inner)
        if ck in ('IntegralCast', 'FloatingCast', 'IntegralToFloating', 'FloatingToIntegral', 'BooleanToSignedIntegral'):
            return '((%s)%s)' % (self.T.c(n['type']), e)
        if ck in ('IntegralToBoolean', 'FloatingToBoolean', 'PointerToBoolean'):
            return '(%s != 0)' % e
        if ck == 'NullToPointer':
            return '0'
        if ck in ('DerivedToBase', 'UncheckedDerivedToBase', 'BaseToDerived'):
            t = self.T.qt(n['type'])
            if ptrlike(self.T.cls(n['type'])) is not None and ptrlike(self.T.cls(inner['type'])) is not None:
                return e
            if n.get('valueCategory') in ('lvalue', 'xvalue'):
                return '(*(%s*)%s)' % (self.T.base(self.T.cls(n['type'])), self.addr(e))
            return '((%s)%s)' % (self.T.c(n['type']), e)
        if ck == 'BitCast':
            return '((%s)%s)' % (self.T.c(n['type']), e)
        if ck == 'ToVoid':
            return '((void)%s)' % e
        self.brk(n, 'cast kind %s' % ck)

    e_ImplicitCastExpr = cast
    e_CStyleCastExpr = cast
    e_CXXStaticCastExpr = cast
    e_CXXConstCastExpr = cast
    e_CXXReinterpretCastExpr = cast

    def e_CXXFunctionalCastExpr(self, n):
        return self.cast(n)

    def e_CXXDynamicCastExpr(self, n):
        tgt = self.T.cls(n['type'])
        e = self.expr(n['inner'][0])
        if n.get('valueCategory') == 'lvalue':
            fn = 'DYNCASTREF__%s' % mangle(tgt)
            self.callees.add(fn)
            return '(*%s(%s))' % (fn, self.addr(e))
        fn = 'DYNCAST__%s' % mangle(tgt)
        self.callees.add(fn)
        return '%s(%s)' % (fn, e)

    def e_CallExpr(self, n, stmt=False):
        fn = self.callee_name(n)
        r = self.call(fn, self.args(fn, n['inner'][1:]), n) if fn not in self.cfg.drop else None
        if r is None:
            self.dropped.append(fn)
            return None if stmt else self.brk(n, 'dropped call %s used as a value' % fn)
        return r

    def e_CXXMemberCallExpr(self, n, stmt=False):
        me = unwrap(n['inner'][0])
        if me.get('kind') == 'MemberExpr' and iterlike(self.T.cls(me['inner'][0]['type'])) is not None:
            if me['name'] == 'base':
                return self.expr(me['inner'][0])
            self.brk(n, 'iterator member %s' % me['name'])
        if me.get('kind') == 'MemberExpr' and ptrlike(self.T.cls(me['inner'][0]['type'])) is not None:
            o = self.expr(me['inner'][0])
            nm = me['name']
            if nm == 'operator bool':
                return '(%s != 0)' % o
            if nm == 'get':
                return o
            if nm == 'reset' and len(n['inner']) == 1:
                return '(%s = 0)' % o
            if nm == 'reset' and len(n['inner']) == 2:
                return '(%s = %s)' % (o, self.expr(n['inner'][1]))
            self.brk(n, 'smart pointer member %s' % nm)
        fn = self.callee_name(n)
        if fn in self.cfg.drop:
            self.dropped.append(fn)
            if stmt: return None
            self.brk(n, 'dropped call %s used as a value' % fn)
        obj = me['inner'][0]
        o = self.expr(obj)
        if not me.get('isArrow'):
            if obj.get('valueCategory') == 'prvalue' or unwrap_mat(obj).get('valueCategory') == 'prvalue' and unwrap(obj).get('kind') != 'CXXThisExpr':
                o = self.ref_bind(obj)
            else:
                o = self.addr(o)
        if me['name'].startswith('operator') and fn.startswith('IDENTITY'):
            return self.deref(o)
        return self.call(fn, [o] + self.args_shift(fn, n['inner'][1:]), n)

    def args_shift(self, fn, argnodes):
        """arguments of a method: defaults are keyed by explicit-parameter position"""
        return self.args(fn, argnodes)

    def e_CXXOperatorCallExpr(self, n, stmt=False):
        cal = unwrap_casts(n['inner'][0])
        rd = cal.get('referencedDecl', {})
        args = n['inner'][1:]
        if args and mapiterlike(self.T.cls(args[0]['type'])) is not None:
            nm = rd.get('name')
            op = nm[len('operator'):]
            a0 = self.expr(args[0])
            if op == '*' and len(args) == 1:
                return '(*VERIF_MAP_DEREF(%s))' % a0
            if op == '->':
                return 'VERIF_MAP_DEREF(%s)' % a0
            if op == '++':
                if len(args) == 2:
                    self.brk(n, 'postfix ++ on a map iterator')
                return '(%s = VERIF_MAP_NEXT(%s))' % (a0, a0)
            if op in ('==', '!=', '=') and len(args) == 2:
                return '(%s %s %s)' % (a0, op, self.expr(args[1]))
            self.brk(n, 'map iterator operator %s' % nm)
        if args and riterlike(self.T.cls(args[0]['type'])) is not None:
            nm = rd.get('name')
            op = nm[len('operator'):]
            a0 = self.expr(args[0])
            if op == '*' and len(args) == 1:
                return '(*(%s - 1))' % a0
            if op == '->':
                return '(%s - 1)' % a0
            if op in ('++', '--'):
                rop = '--' if op == '++' else '++'
                return '(%s%s)' % (a0, rop) if len(args) == 2 else '(%s%s)' % (rop, a0)
            if op in ('==', '!=', '=') and len(args) == 2:
                return '(%s %s %s)' % (a0, op, self.expr(args[1]))
            self.brk(n, 'reverse iterator operator %s' % nm)
        if args and iterlike(self.T.cls(args[0]['type'])) is not None:
            nm = rd.get('name')
            op = nm[len('operator'):]
            a0 = self.expr(args[0])
            if op == '*' and len(args) == 1:
                return '(*%s)' % a0
            if op == '->':
                return a0
            if op in ('++', '--'):
                return '(%s%s)' % (a0, op) if len(args) == 2 else '(%s%s)' % (op, a0)
            if op in ('+', '-', '+=', '-=', '==', '!=', '<', '>', '<=', '>=', '=') and len(args) == 2:
                return '(%s %s %s)' % (a0, op, self.expr(args[1]))
            if op == '[]':
                return '%s[%s]' % (a0, self.expr(args[1]))
            self.brk(n, 'iterator operator %s' % nm)
        if args and any(ptrlike(self.T.cls(a['type'])) is not None for a in args[:2]) and rd.get('name') in ('operator->', 'operator*', 'operator=', 'operator==', 'operator!=', 'operator bool'):
            nm = rd['name']
            a0 = self.expr(args[0])
            if nm == 'operator->':
                return a0
            if nm == 'operator*':
                return '(*%s)' % a0
            a1 = self.expr(args[1])
            if nm == 'operator=':
                return '(%s = %s)' % (a0, a1)
            return '(%s %s %s)' % (a0, nm[len('operator'):], a1)
        fn = self.callee_name(n)
        if fn in self.cfg.drop:
            self.dropped.append(fn)
            if stmt: return None
            # operator<< chains: value of a dropped stream insertion is the stream itself
            self.brk(n, 'dropped operator %s used as a value' % fn)
        if rd.get('kind') == 'CXXMethodDecl':
            o = self.arg_obj(args[0])
            cls = self.T.cls(args[0]['type'])
            if rd.get('name') == 'operator=' and cls in self.cfg.plain and (cls, 'operator=', 1) not in self.cfg.rename:
                return '(%s = %s)' % (self.deref(o), self.val_of(args[1]))
            return self.call(fn, [o] + self.args(fn, args[1:]), n)
        return self.call(fn, self.args(fn, args), n)

    def val_of(self, a):
        return self.expr(a)

    def arg_obj(self, a):
        u = a
        while u.get('kind') in TRANSPARENT:
            u = u['inner'][0]
        if u.get('kind') == 'MaterializeTemporaryExpr' or u.get('valueCategory') == 'prvalue':
            return self.ref_bind(u)
        return self.addr(self.expr(u))

    def e_CXXConstructExpr(self, n):
        cls = self.T.cls(n['type'])
        args = ctor_args(n)
        if iterlike(cls) is not None or riterlike(cls) is not None or mapiterlike(cls) is not None:
            if len(args) == 1:
                return '((%s)%s)' % (self.T.c(n['type']), self.expr(args[0]))
            if not args:
                return '((%s)0)' % self.T.c(n['type'])
            self.brk(n, 'iterator construction')
        if ptrlike(cls) is not None:
            args = [a for a in args if a.get('kind') != 'CXXDefaultArgExpr']
            if not args:
                return '((%s)0)' % self.T.c(n['type'])
            if len(args) == 1:
                return '((%s)%s)' % (self.T.c(n['type']), self.expr(args[0]))
            self.brk(n, 'smart pointer construction with %d arguments' % len(args))
        if len(args) == 1 and self.is_copy_ctor(n):
            a = args[0]
            if n.get('elidable') or unwrap_mat(a).get('valueCategory') == 'prvalue':
                return self.prvalue_of(a)
            if cls in self.cfg.plain:
                return self.expr(a)
            fn = self.resolve_ctor(cls, 'copy', n)
            mk = fn.replace('__ctor_', '__make_')
            self.callees.add(mk)
            return '%s(%s)' % (mk, self.addr(self.expr(a)))
        fn = self.resolve_ctor(cls, len(args), n)
        mk = fn.replace('__ctor_', '__make_')
        self.callees.discard(fn); self.callees.add(mk)
        if fn in self.cfg.throws: self.cfg.throws.add(mk)
        return '%s(%s)' % (mk, ', '.join(self.args(fn, args)))
    e_CXXTemporaryObjectExpr = e_CXXConstructExpr

    def e_CXXNewExpr(self, n):
        if n.get('isArray'):
            inner = n['inner']
            cnt = self.expr(inner[0])
            et = self.T._c(self.T.qt(n['type']).rstrip('* '))
            return '((%s*)verif_new_array(%s, sizeof(%s)))' % (et, cnt, et)
        inner = [c for c in n.get('inner', [])]
        cls = self.T.cls(n['type'])
        cty = self.T.base(cls)
        if inner and unwrap(inner[-1]).get('kind') == 'CXXConstructExpr':
            u = unwrap(inner[-1])
            tn = self.tmp('verif_new')
            self.pre.append('%s* %s = (%s*)verif_new(sizeof(%s));' % (cty, tn, cty, cty))
            self.pre += self.construct_into('(*%s)' % tn, u)
            return tn
        if self.T.is_scalar(cls) or cls in BUILTIN:
            tn = self.tmp('verif_new')
            self.pre.append('%s* %s = (%s*)verif_new(sizeof(%s));' % (cty, tn, cty, cty))
            if inner:
                self.pre.append('*%s = %s;' % (tn, self.expr(inner[-1])))
            return tn
        self.brk(n, 'new expression form')

    def e_CXXDeleteExpr(self, n, stmt=False):
        self.dropped.append('delete')
        return '(void)0'

    def e_CXXThrowExpr(self, n, stmt=False):
        inner = n.get('inner', [])
        if not inner:
            # rethrow
            return 'do { verif_exc = verif_exc_caught; %s } while (0)' % self.leave()
        u = inner[0]
        ecls = self.T.cls(u['type'])
        return 'do { verif_exc = EXC_%s; %s } while (0)' % (mangle(ecls), self.leave())

    def e_UnaryExprOrTypeTraitExpr(self, n):
        if n.get('name') == 'sizeof':
            if 'argType' in n:
                return 'sizeof(%s)' % self.T.c(n['argType'])
            return 'sizeof(%s)' % self.expr(n['inner'][0])
        self.brk(n, 'type trait')

    def e_InitListExpr(self, n):
        vals = [self.expr(x) for x in n.get('inner', [])]
        if self.T.is_scalar(n['type']):
            return vals[0] if vals else '0'
        self.brk(n, 'init list of class type')

    def e_CXXDefaultArgExpr(self, n):
        self.brk(n, 'default argument outside a call')

    def e_LambdaExpr(self, n):
        self.brk(n, 'lambda')

    def e_PredefinedExpr(self, n):
        return '""'

def ctor_args(u):
    """constructor arguments without defaulted allocator parameters"""
    return [a for a in u.get('inner', []) if not (a.get('kind') == 'CXXDefaultArgExpr' and 'allocator' in (a['type'].get('desugaredQualType') or a['type']['qualType']))]

def unwrap_casts(n):
    while n.get('kind') in TRANSPARENT + ('ImplicitCastExpr',):
        n = n['inner'][0]
    return n

def unwrap_mat(n):
    while n.get('kind') in TRANSPARENT + ('MaterializeTemporaryExpr',) or (n.get('kind') == 'ImplicitCastExpr' and n.get('castKind') == 'NoOp'):
        n = n['inner'][0]
    return n

def _balanced(s):
    d = 0
    for ch in s:
        if ch == '(':
            d += 1
        elif ch == ')':
            d -= 1
            if d < 0:
                return False
    return d == 0

def _strip_templates(s):
    out = []; d = 0
    for ch in s:
        if ch == '<': d += 1
        elif ch == '>': d -= 1
        elif d == 0: out.append(ch)
    return ''.join(out)

def _ret_type(ftype):
    """return type part of a function type string 'R (args) quals'"""
    d = 0
    # find the '(' that opens the parameter list: the last top-level '(' whose matching ')' is followed by qualifiers only
    # scan from the right
    i = len(ftype) - 1
    # strip trailing qualifiers
    m = re.match(r'^(.*\))\s*(const|volatile|noexcept|&|&&|\s)*$', ftype)
    s = m.group(1) if m else ftype
    d = 0
    for j in range(len(s) - 1, -1, -1):
        if s[j] == ')': d += 1
        elif s[j] == '(':
            d -= 1
            if d == 0:
                return s[:j].strip()
    raise ExtractionBreak('cannot parse function type %r' % ftype)

# ----------------------------------------------------------------------------
# struct generation
# ----------------------------------------------------------------------------
def struct_fields(index, cfg, qname):
    """[(ctype, name)] of the flattened struct (ghost fields included)"""
    t = struct_text(index, cfg, qname)
    body = t[t.index('{') + 1:t.rindex('}')]
    out = []
    for f in body.split(';'):
        f = f.strip()
        if f:
            ty, nm = f.rsplit(None, 1)
            while nm.startswith('*'):
                ty += '*'; nm = nm[1:]
            out.append((ty, nm))
    return out

def struct_text(index, cfg, qname, cname=None, extra=''):
    """C struct for class qname: base-class fields first (flattened), then own fields; ghost fields per cfg"""
    fields = []
    only = cfg.struct_fields.get(norm_class(qname))
    def rec(q):
        q = norm_class(q)
        r = index.records.get(q)
        if r is None:
            if q in cfg.ghost_fields:   # abstract base outside the dump: ghost fields only
                fields.append(cfg.ghost_fields[q])
                return
            raise ExtractionBreak('record %s not in AST dump' % q)
        for b in r.get('bases', []) or []:
            bq = norm_class(b['type'].get('desugaredQualType') or b['type']['qualType'])
            if only is not None:
                continue     # restricted struct: only the listed fields of the class itself
            if bq in index.records:
                rec(bq)
            elif bq in cfg.ghost_fields:
                fields.append(cfg.ghost_fields[bq])
        if q in cfg.ghost_fields:
            fields.append(cfg.ghost_fields[q])
        for c in r.get('inner', []):
            if c.get('kind') == 'FieldDecl':
                if only is not None and c['name'] not in only:
                    continue
                fields.append('%s %s;' % (cfg.types.c(c['type']), c['name']))
    rec(qname)
    seen = [];
    for f in fields:
        if f not in seen: seen.append(f)
    cn = cname or mangle(qname)
    return 'struct %s { %s %s };' % (cn, ' '.join(seen), extra)

def source_hash(finfo):
    n = finfo['node']
    f, a, b = n.get('_file'), n.get('_line'), n.get('_endline')
    try:
        lines = open(f).read().split('\n')[a - 1:b]
        return hashlib.sha256('\n'.join(lines).encode()).hexdigest()[:16], f, a, b
    except Exception:
        return None, f, a, b
