#!/usr/bin/env python3
"""Runner: extract (cxx2c) -> attach contracts -> goto-cc -> goto-instrument --dfcc -> cbmc -> classify -> evidence.

Exit codes of `check`:  0 property held on everything explored, 1 violation (VIOLATION line printed),
2 undecided (timeout, tool failure, extraction break) - never reported as a violation.
"""
import os, sys, re, json, time, subprocess, importlib.util, hashlib, shutil, concurrent.futures as cf, traceback

HERE = os.path.dirname(os.path.abspath(__file__))
ROOT = os.path.dirname(HERE)
sys.path.insert(0, HERE)
import cxx2c
from cxx2c import ExtractionBreak

BUILD = os.path.join(ROOT, 'build')
STUBS = os.path.join(ROOT, 'stubs')
CBMC_FLAGS = ['--object-bits', '12', '--conversion-check', '--no-malloc-may-fail', '--sat-solver', 'cadical']
CBMC_TIMEOUT = int(os.environ.get('VERIF_CBMC_TIMEOUT', '1500'))   # the slowest contract run takes 200 s on an idle machine; a loaded one tripped a 300 s limit
MEM_KB = 10 * 1024 * 1024

def sh(cmd, timeout=None, cwd=None, mem_kb=None):
    t0 = time.time()
    pre = 'ulimit -v %d; ' % (mem_kb or MEM_KB)
    try:
        p = subprocess.run(['bash', '-c', pre + 'exec "$@"', 'x'] + cmd, stdout=subprocess.PIPE, stderr=subprocess.STDOUT,
                           text=True, timeout=timeout, cwd=cwd)
        return p.returncode, p.stdout, time.time() - t0
    except subprocess.TimeoutExpired as e:
        out = e.stdout if isinstance(e.stdout, str) else (e.stdout or b'').decode(errors='replace')
        return -9, (out or '') + '\nTIMEOUT after %ss' % timeout, time.time() - t0

# ----------------------------------------------------------------------------
class Unit:
    def __init__(self, prop):
        path = os.path.join(ROOT, 'units', prop + '.py')
        spec = importlib.util.spec_from_file_location('unit_' + prop, path)
        m = importlib.util.module_from_spec(spec)
        spec.loader.exec_module(m)
        self.m = m
        self.prop = prop
        self.work = os.path.join(BUILD, prop)
        os.makedirs(self.work, exist_ok=True)
        self.index = cxx2c.Index()
        self.lowered = {}    # cname -> FnLower
        self.hashes = {}

    def extract(self):
        m = self.m
        tus = m.TUS
        def one(item):
            tag, tu = item
            return tag, cxx2c.run_clang(tu['src'], tu['filter'], self.work, tag, tu.get('flags', ()))
        with cf.ThreadPoolExecutor(max_workers=8) as ex:
            for tag, objs in ex.map(one, list(tus.items())):
                self.index.add_objs(objs, tus[tag].get('prefix'))
        self.cfg = cxx2c.Cfg(**m.CFG)
        # pass 1: lower everything with the declared may-throw set; compute which extracted functions may throw
        specs = m.FUNCS
        for rounds in range(4):
            changed = False
            self.lowered = {}
            for fs in specs:
                fi = self.index.find(fs['qname'], sig=fs.get('sig'), mangled=fs.get('mangled'), targs=fs.get('targs'))
                cfg = self.cfg
                saved_uf = cfg.uf_ops
                if 'uf_ops' in fs:     # per-function choice of the arithmetic model (machine floating point when empty)
                    cfg.uf_ops = dict(fs['uf_ops'])
                cfg.uf_names = fs.get('uf_names'); cfg.uf_int_ops = fs.get('uf_int_ops')     # regex: only operations whose operand text names one of these variables are abstracted
                try:
                    fl = cxx2c.FnLower(cfg, fi, fs['cname'], self.index).lower()
                finally:
                    cfg.uf_ops = saved_uf; cfg.uf_names = None; cfg.uf_int_ops = None
                self.lowered[fs['cname']] = fl
                txt = '\n'.join(fl.body)
                throws = ('verif_exc = EXC_' in txt) or ('if (verif_exc)' in txt and not fl_catches_all(txt))
                if throws and fs['cname'] not in cfg.throws and not fs.get('nothrow'):
                    cfg.throws.add(fs['cname']); changed = True
                    mk = fs['cname'].replace('__ctor_', '__make_')
                    cfg.throws.add(mk)
            if not changed:
                break
        for fs in specs:
            fl = self.lowered[fs['cname']]
            if 'nloops' not in fs and 'loops' not in fs and fs.get('ensures') is None:
                continue    # body used in bounded runs only: no loop contracts are keyed to it
            want = fs.get('nloops', len(fs.get('loops', {})))
            if fl.nloops != want:
                raise ExtractionBreak('%s: %d loops in the source, unit expects %d' % (fs['cname'], fl.nloops, want))
            self.hashes[fs['cname']] = cxx2c.source_hash(fl.f)

    # ---- C text assembly
    def contract_text(self, fs):
        out = []
        for r in fs.get('requires', []):
            out.append('__CPROVER_requires(%s)' % r)
        for e in fs.get('ensures', []):
            out.append('__CPROVER_ensures(%s)' % e)
        a = fs.get('assigns')
        if a is not None:
            if isinstance(a, str): a = [a]
            if not a:
                out.append('__CPROVER_assigns()')
            for x in a:
                out.append('__CPROVER_assigns(%s)' % x)
        return '\n'.join(out)

    def loop_text(self, lc):
        out = []
        a = lc.get('assigns')
        if a:
            out.append('__CPROVER_assigns(%s)' % a)
        for inv in lc.get('invariant', []):
            out.append('__CPROVER_loop_invariant(%s)' % inv)
        if lc.get('decreases'):
            out.append('__CPROVER_decreases(%s)' % lc['decreases'])
        return ' '.join(out)

    def fn_def(self, fs, with_contract=True, with_loops=True):
        fl = self.lowered[fs['cname']]
        t = fl.text(self.contract_text(fs) if with_contract else '')
        for i in range(1, fl.nloops + 1):
            lc = fs.get('loops', {}).get(i)
            t = t.replace('/*@LOOP%d@*/' % i, self.loop_text(lc) if (lc and with_loops) else '')
        return t

    def fn_decl(self, fs, with_contract=True):
        fl = self.lowered[fs['cname']]
        return fl.sig + '\n' + (self.contract_text(fs) if with_contract else '') + ';'

    def structs(self):
        out = []
        for q in getattr(self.m, 'STRUCTS', []):
            cn = self.cfg.types.base(q)
            out.append('struct %s; typedef struct %s %s;' % (cn, cn, cn))
        for q in getattr(self.m, 'STRUCTS', []):
            out.append(cxx2c.struct_text(self.index, self.cfg, q, self.cfg.types.base(q)))
        return '\n'.join(out)

    def prelude(self, mode, defs=''):
        m = self.m
        p = [defs, '#define VERIF_MODE_%s 1' % mode.upper(), '#include "verif.h"']
        p.append(getattr(m, 'PRE_STRUCTS', ''))
        p.append(self.structs())
        p.append(getattr(m, 'PRELUDE', ''))
        return '\n'.join(p)

    def spec_by_cname(self, c):
        for fs in self.m.FUNCS:
            if fs['cname'] == c:
                return fs
        return None

    def make_wrappers(self):
        """C__make_<n> by-value constructors for extracted constructors"""
        out = []
        for fs in self.m.FUNCS:
            fl = self.lowered[fs['cname']]
            if fl.f['kind'] == 'CXXConstructorDecl' and '__ctor_' in fs['cname']:
                mk = fs['cname'].replace('__ctor_', '__make_')
                params = fl.sig[fl.sig.index('(') + 1:-1].split(', ')
                cty = params[0].rsplit('*', 1)[0].strip()
                rest = params[1:]
                names = [p.split()[-1].lstrip('*') for p in rest]
                out.append('static inline %s %s(%s) { %s verif_o; %s(%s); return verif_o; }' %
                           (cty, mk, ', '.join(rest) if rest else 'void', cty, fs['cname'], ', '.join(['&verif_o'] + names)))
        return out

# ----------------------------------------------------------------------------
def fl_catches_all(txt):
    return False

STATUS_RE = re.compile(r'^\[(?P<name>[^\]]+)\]\s+(?:(?:file (?P<file>\S+) )?(?:function \S+ )?line (?P<line>\d+) )?(?P<desc>.*): (?P<st>SUCCESS|FAILURE|UNKNOWN|ERROR)$')

def parse_cbmc(out):
    props = []
    for ln in out.split('\n'):
        m = STATUS_RE.match(ln.strip())
        if m:
            props.append(dict(name=m.group('name'), file=m.group('file'), line=m.group('line'), desc=m.group('desc'), status=m.group('st')))
    verdict = None
    if 'VERIFICATION SUCCESSFUL' in out: verdict = 'SUCCESSFUL'
    elif 'VERIFICATION FAILED' in out: verdict = 'FAILED'
    return props, verdict

class Job:
    def __init__(self, unit, jid, kind, ctext, entry, enforce=None, replace=(), loops=False, unwind=None, extra_flags=(),
                 expect_fail=('verif_canary',), meta=None, timeout=None, split=False):
        self.split = split
        self.unit, self.id, self.kind, self.ctext, self.entry = unit, jid, kind, ctext, entry
        self.enforce, self.replace, self.loops, self.unwind = enforce, list(replace), loops, unwind
        self.extra_flags = list(extra_flags)
        self.meta = meta or {}
        self.timeout = max(timeout or 0, CBMC_TIMEOUT)     # unit timeouts can only lengthen the limit: a run cut short is a check that exits 2
        self.result = None

    def run(self):
        w = self.unit.work
        base = os.path.join(w, self.id)
        cfile = base + '.c'
        with open(cfile, 'w') as f:
            f.write(self.ctext)
        t0 = time.time()
        res = dict(id=self.id, kind=self.kind, status='undecided', props=[], reason='', wall=0.0, cfile=cfile, meta=self.meta)
        rc, out, _ = sh(['goto-cc', '-I', STUBS, '-I', os.path.join(ROOT, 'units'), '--function', self.entry, cfile, '-o', base + '.gb'], timeout=120)
        if rc != 0:
            res['reason'] = 'goto-cc failed: ' + out[-3000:]
            res['wall'] = time.time() - t0
            return res
        gb = base + '.gb'
        if self.enforce or self.replace or self.loops:
            cmd = ['goto-instrument', '--dfcc', self.entry]
            if self.enforce:
                cmd += ['--enforce-contract', self.enforce]
            for r in self.replace:
                cmd += ['--replace-call-with-contract', r]
            if self.loops:
                cmd += ['--apply-loop-contracts']
            cmd += [gb, base + '.i.gb']
            rc, out, _ = sh(cmd, timeout=300)
            tries = 0
            while rc != 0 and tries < 40:
                mm = re.search(r"Function to replace '([^']+)' not found", out)
                if not mm:
                    break
                # a stub that the compiled program never references (unused static inline helper): nothing to replace
                self.replace = [r for r in self.replace if r != mm.group(1)]
                cmd = ['goto-instrument', '--dfcc', self.entry] + (['--enforce-contract', self.enforce] if self.enforce else [])
                for r in self.replace:
                    cmd += ['--replace-call-with-contract', r]
                if self.loops:
                    cmd += ['--apply-loop-contracts']
                cmd += [gb, base + '.i.gb']
                rc, out, _ = sh(cmd, timeout=300)
                tries += 1
            if rc != 0:
                res['reason'] = 'goto-instrument failed: ' + out[-3000:]
                res['wall'] = time.time() - t0
                return res
            gb = base + '.i.gb'
        cmd = ['cbmc'] + [f for f in CBMC_FLAGS if f not in getattr(self, 'drop_flags', ())] + self.extra_flags
        if self.unwind is not None:
            cmd += ['--unwind', str(self.unwind), '--unwinding-assertions']
        cmd += [gb]
        res['cmd'] = ' '.join(cmd)
        if self.split:
            rc, out, dt = self.run_split(cmd)
        else:
            rc, out, dt = sh(cmd, timeout=self.timeout, mem_kb=(self.meta or {}).get('mem_kb'))
        with open(base + '.log', 'w') as f:
            f.write(out)
        res['solver_s'] = dt
        res['wall'] = time.time() - t0
        props, verdict = parse_cbmc(out)
        res['props'] = props
        m = re.search(r'Runtime Solver: ([0-9.e+-]+)s', out)
        if m: res['runtime_solver'] = float(m.group(1))
        if rc == -9:
            res['reason'] = 'cbmc timeout (%ds)' % self.timeout
            return res
        if verdict is None:
            res['reason'] = 'cbmc gave no verdict: ' + out[-2000:]
            return res
        if 'ignoring' in out and 'forall' in out:
            res['reason'] = 'quantifier ignored by back end'
            return res
        res['status'] = 'done'
        res['log'] = base + '.log'
        return res

def _run_split(self, cmd):
    """one obligation per run for the postconditions (float laws, DESIGN.md 2), every other property in one more run"""
    t0 = time.time()
    rc, out, _ = sh(cmd[:-1] + ['--show-properties', cmd[-1]], timeout=120)
    names = re.findall(r'^Property ([^\s:]+):', out, re.M)
    if rc != 0 or not names:
        return rc if rc != 0 else 1, out, time.time() - t0
    hard = [n for n in names if '.postcondition.' in n or '.assertion.' in n]
    rest = [n for n in names if n not in hard]
    groups = [[h] for h in hard] + ([rest] if rest else [])
    def one(g):
        c = cmd[:-1]
        for n in g:
            c += ['--property', n]
        return sh(c + [cmd[-1]], timeout=self.timeout)
    outs = []
    worst = 0
    with cf.ThreadPoolExecutor(max_workers=4) as ex:
        for (r, o, d) in ex.map(one, groups):
            outs.append(o)
            if r == -9: worst = -9
    allout = '\n'.join(outs)
    verdicts = [('VERIFICATION SUCCESSFUL' in o) or ('VERIFICATION FAILED' in o) for o in outs]
    if not all(verdicts):
        allout = allout.replace('VERIFICATION SUCCESSFUL', 'verification successful (partial)').replace('VERIFICATION FAILED', 'verification failed (partial)')
    elif any('VERIFICATION FAILED' in o for o in outs):
        allout = allout.replace('VERIFICATION SUCCESSFUL', 'verification successful (partial)')
    return worst, allout, time.time() - t0
Job.run_split = _run_split

def trace_of(job, prop_name=None):
    """re-run a failed job with --trace and return the text (bounded time)"""
    base = os.path.join(job.unit.work, job.id)
    gb = base + '.i.gb' if os.path.exists(base + '.i.gb') else base + '.gb'
    cmd = ['cbmc'] + CBMC_FLAGS + job.extra_flags + ['--trace', '--trace-hex']
    if prop_name:
        cmd += ['--property', prop_name]
    if getattr(job, 'cex_ctext', None):
        # first try the narrowed (replayable) variant
        cb = base + '.cex'
        open(cb + '.c', 'w').write(job.cex_ctext)
        rc, out, _ = sh(['goto-cc', '-I', STUBS, '-I', os.path.join(ROOT, 'units'), '--function', job.entry, cb + '.c', '-o', cb + '.gb'], timeout=120)
        if rc == 0:
            ic = ['goto-instrument', '--dfcc', job.entry] + (['--enforce-contract', job.enforce] if job.enforce else [])
            for r in job.replace: ic += ['--replace-call-with-contract', r]
            if job.loops: ic += ['--apply-loop-contracts']
            rc, out, _ = sh(ic + [cb + '.gb', cb + '.i.gb'], timeout=300)
            if rc == 0:
                rc, out, dt = sh(cmd + [cb + '.i.gb'], timeout=min(job.timeout, 300))
                if 'Violated property' in out:
                    return out
    if job.unwind is not None:
        cmd += ['--unwind', str(job.unwind), '--unwinding-assertions']
    rc, out, dt = sh(cmd + [gb], timeout=min(job.timeout, 300))
    return out

# ----------------------------------------------------------------------------
def build_contract_job(unit, fs):
    """enforce the contract of one extracted function; extracted callees and stubs are replaced by their contracts"""
    fl = unit.lowered[fs['cname']]
    m = unit.m
    parts = [unit.prelude('proof')]
    replace = []
    # callee declarations with contracts
    inline = set(fs.get('inline', ()))
    decls = []
    todo = sorted(fl.callees)
    seen = set()
    defs_inline = []
    while todo:
        c = todo.pop()
        if c in seen: continue
        seen.add(c)
        cs = unit.spec_by_cname(c)
        if cs is None:
            base = c.replace('__make_', '__ctor_')
            cs2 = unit.spec_by_cname(base)
            if cs2 is not None and c != base:
                # by-value wrapper of an extracted constructor: the constructor itself is replaced by its contract
                if base not in seen:
                    todo.append(base)
            continue
        if c == fs['cname']:
            continue
        if c in inline:
            defs_inline.append(unit.fn_def(cs, with_contract=False, with_loops=True))
            todo += sorted(unit.lowered[c].callees)
        else:
            decls.append(unit.fn_decl(cs))
            replace.append(c)
    stub_contracts = getattr(m, 'STUB_CONTRACTS', set())
    for c in sorted(stub_contracts):
        replace.append(c)        # filtered below to the stubs the emitted text reaches
    parts += decls
    # forward declarations of all extracted functions are needed for wrappers
    parts.append('/* ---- function under contract ---- */')
    parts += defs_inline
    fs_m = dict(fs)
    fs_m['requires'] = list(fs.get('requires', []))
    parts.append('@@MIRROR_GLOBALS@@')
    parts.append('@@FNDEF@@')
    # wrappers after the definitions they call
    wr = [w for w in unit.make_wrappers()]
    # harness
    params = fl.sig[fl.sig.index('(') + 1:-1]
    plist = [] if params.strip() == 'void' else [p.strip() for p in split_params(params)]
    decl_lines = []
    names = []
    for p in plist:
        nm = p.split()[-1].lstrip('*')
        names.append(nm)
        decl_lines.append('  %s;' % p)
    # input mirrors: named ghost copies of the scalar inputs, so that a counterexample trace shows the inputs
    mir_globals, mir_assign, mir_requires = [], [], []
    NONDET = {'double': 'nondet_double()', '_Bool': 'nondet_bool()', 'int': 'nondet_int()', 'unsigned long': 'nondet_ulong()',
              'char': 'nondet_char()', 'unsigned int': 'nondet_uint()', 'long': 'nondet_long()', 'float': '(float)nondet_double()'}
    decl_lines = []
    for p in plist:
        ty, nm = p.rsplit(None, 1)
        while nm.startswith('*'):
            ty += '*'; nm = nm[1:]
        if nm in fs.get('fix', {}):
            decl_lines.append('  %s %s = %s;' % (ty, nm, fs['fix'][nm]))
        elif ty in NONDET:
            decl_lines.append('  %s %s = %s;' % (ty, nm, NONDET[ty]))
        else:
            decl_lines.append('  %s %s;' % (ty, nm))
    for pname, q in fs.get('mirror', {}).items():
        if isinstance(q, (list, tuple)):
            flds, cast = list(q), None
        else:
            flds, cast = cxx2c.struct_fields(unit.index, unit.cfg, q), unit.cfg.types.base(q)
        for (ty, fld) in flds:
            if ty not in NONDET: continue
            g = 'verif_in_%s_%s' % (re.sub(r'[^A-Za-z0-9]+', '_', pname).strip('_'), fld)
            if cast is None:
                mir_globals.append('%s %s;' % (ty, g))
                mir_assign.append('  %s = %s;' % (g, NONDET[ty]))
                mir_requires.append('(%s) == 0 || (%s)->%s == %s' % (pname, pname, fld, g))
                continue
            mir_globals.append('%s %s;' % (ty, g))
            mir_assign.append('  %s = %s;' % (g, NONDET[ty]))
            if ty in ('double', 'float'):
                mir_requires.append('(%s) == 0 || (((%s*)%s)->%s == %s || (VERIF_ISNAN(((%s*)%s)->%s) && VERIF_ISNAN(%s)))' % (pname, unit.cfg.types.base(q), pname, fld, g, unit.cfg.types.base(q), pname, fld, g))
            else:
                mir_requires.append('(%s) == 0 || ((%s*)%s)->%s == %s' % (pname, unit.cfg.types.base(q), pname, fld, g))
    h = mir_globals + ['void h_%s(void) {' % fs['cname']] + decl_lines + mir_assign
    h.append('  verif_exc = 0; verif_exc_caught = 0;')
    for g in fs.get('harness_pre', []):
        h.append('  ' + g)
    h.append('  %s(%s);' % (fs['cname'], ', '.join(names)))
    h.append('  __CPROVER_assert(0, "verif_canary reachable after call");')
    h.append('}')
    # put wrappers before the function (they are static inline and need prototypes of ctors)
    protos = [unit.lowered[x['cname']].sig + ';' for x in m.FUNCS if x['cname'] not in replace and x['cname'] != fs['cname'] and x['cname'] not in inline]
    fs_m['requires'] += mir_requires
    parts[parts.index('@@MIRROR_GLOBALS@@')] = '\n'.join(mir_globals)
    ifn = parts.index('@@FNDEF@@')
    parts[ifn] = unit.fn_def(fs_m)
    # syntactic side conditions of stub contracts (e.g. "every call of this stub in the function has the same first two arguments")
    for rx, maxn, why in fs.get('must_match', []):
        found = set(re.findall(rx, parts[ifn]))
        if len(found) > maxn:
            raise cxx2c.ExtractionBreak('%s: %s (found %s)' % (fs['cname'], why, sorted(found)))
    # only callees that occur in the emitted text can be replaced by their contracts (names met inside dropped
    # expressions - exception messages - are not in the program)
    body_text = parts[ifn] + '\n'.join(defs_inline) + '\n'.join(w for w in unit.make_wrappers()) + getattr(m, 'PRELUDE', '')
    replace = [r for r in replace if re.search(r'\b%s\s*\(' % re.escape(r), parts[ifn] + '\n'.join(defs_inline))
               or (r in stub_contracts and re.search(r'\b%s\s*\(' % re.escape(r), _inline_prelude_calls(m, parts[ifn] + '\n'.join(defs_inline))))]
    h = h[len(mir_globals):]
    ctext = '\n'.join(parts[:1] + protos_for_wrappers(unit, fs, replace, inline) + parts[1:] + h)
    cex_ctext = None
    if fs.get('cex_requires'):
        # narrowed variant used only to obtain a counterexample that the native adapter can replay
        fs_c = dict(fs_m); fs_c['requires'] = fs_m['requires'] + list(fs['cex_requires'])
        parts2 = list(parts); parts2[ifn] = unit.fn_def(fs_c)
        cex_ctext = '\n'.join(parts2[:1] + protos_for_wrappers(unit, fs, replace, inline) + parts2[1:] + h)
    return _drop(_with_cex(cex_ctext, Job(unit, 'p_' + fs['cname'] + ('_' + fs['job_tag'] if fs.get('job_tag') else ''), 'contract', ctext, 'h_' + fs['cname'], enforce=fs['cname'],
               replace=sorted(set(replace)), loops=bool(fs.get('loops')), extra_flags=fs.get('cbmc_flags', ()),
               meta=dict(function=fs['qname'], cname=fs['cname'], mem_kb=fs.get('mem_kb'), variant=fs.get('fix')), timeout=fs.get('timeout'), split=fs.get('split', False))), fs)

def _with_cex(cex_ctext, job):
    job.cex_ctext = cex_ctext
    return job

def _drop(job, fs):
    job.drop_flags = tuple(fs.get('drop_flags', ()))
    return job

def _inline_prelude_calls(m, text):
    """text of the static inline / macro helpers of the unit's PRELUDE and of the stub headers that the function text uses:
    a contract stub reached only through such a helper (e.g. Str__find -> Str__find_n) must still be replaced"""
    out = []
    srcs = [getattr(m, 'PRELUDE', ''), getattr(m, 'PRE_STRUCTS', '')]
    for fn in os.listdir(STUBS):
        srcs.append(open(os.path.join(STUBS, fn)).read())
    allsrc = '\n'.join(srcs)
    seen = set(); todo = set(re.findall(r'\b([A-Za-z_][A-Za-z0-9_]*)\s*\(', text))
    while todo:
        f = todo.pop()
        if f in seen: continue
        seen.add(f)
        for mm in re.finditer(r'(?:static inline[^\n{]*\b%s\s*\([^{;]*\)\s*\{[^\n]*|#define\s+%s\([^\n]*)' % (re.escape(f), re.escape(f)), allsrc):
            out.append(mm.group(0))
            todo |= set(re.findall(r'\b([A-Za-z_][A-Za-z0-9_]*)\s*\(', mm.group(0))) - seen
    return '\n'.join(out)

def protos_for_wrappers(unit, fs, replace, inline):
    """by-value constructor wrappers used by this function (defined after the constructor's contract declaration)"""
    fl = unit.lowered[fs['cname']]
    used = set()
    todo = [fs['cname']] + list(inline)
    for c in todo:
        used |= {x for x in unit.lowered[c].callees if '__make_' in x}
    out = []
    for w in unit.make_wrappers():
        name = w.split('(')[0].split()[-1]
        if name in used:
            ctor = name.replace('__make_', '__ctor_')
            cs = unit.spec_by_cname(ctor)
            out.append(unit.fn_decl(cs))
            out.append(w)
    return out

def split_params(s):
    out = []; d = 0; cur = ''
    for ch in s:
        if ch in '(<': d += 1
        if ch in ')>': d -= 1
        if ch == ',' and d == 0:
            out.append(cur); cur = ''
        else:
            cur += ch
    if cur.strip(): out.append(cur)
    return out

def build_lemma_job(unit, lm):
    """a harness (C text) over extracted functions: 'replace' lists callees used through their contracts,
    'bodies' lists extracted functions whose real body is included"""
    parts = [unit.prelude(lm.get('mode', 'proof'), lm.get('defs', ''))]
    rep = list(lm.get('replace', []))
    wrappers = {w.split('(')[0].split()[-1]: w for w in unit.make_wrappers()}
    for c in rep:
        cs = unit.spec_by_cname(c)
        if cs is not None:
            parts.append(unit.fn_decl(cs))
            mk = c.replace('__ctor_', '__make_')
            if mk in wrappers and mk != c:
                parts.append(wrappers[mk])
    bodies = list(lm.get('bodies', []))
    for c in bodies:
        cs = unit.spec_by_cname(c)
        parts.append(unit.lowered[c].sig + ';')
    for c in bodies:
        cs = unit.spec_by_cname(c)
        parts.append(unit.fn_def(cs, with_contract=False, with_loops=bool(lm.get('loops'))))
        mk = c.replace('__ctor_', '__make_')
        if mk in wrappers and mk != c:
            parts.append(wrappers[mk])
    parts.append(lm['harness'])
    stub_contracts = getattr(unit.m, 'STUB_CONTRACTS', set())
    rep2 = [c for c in rep]
    for c in lm.get('replace_stubs', []):
        rep2.append(c)
    return Job(unit, lm['id'], lm.get('kind', 'lemma'), '\n'.join(parts), lm['entry'], replace=sorted(set(rep2)),
               loops=bool(lm.get('loops')), unwind=lm.get('unwind'), extra_flags=lm.get('cbmc_flags', ()),
               meta=dict(lemma=lm.get('doc', ''), functions=bodies + rep, bound=lm.get('bound'), mem_kb=lm.get('mem_kb'), bound_loops=lm.get('bound_loops')), timeout=lm.get('timeout'))

# ----------------------------------------------------------------------------
def classify(job, res, known):
    """-> (ok, violations[list of dict], known_hits[list], problems[list of str])"""
    viol, hits, problems = [], [], []
    if res['status'] != 'done':
        problems.append('%s: %s' % (job.id, res['reason'][:1500]))
        return viol, hits, problems
    props = res['props']
    if not props:
        problems.append('%s: zero obligations generated' % job.id)
    canary = [p for p in props if 'verif_canary' in p['desc']]
    if job.kind in ('contract',) or job.meta.get('canary', True):
        if not canary and job.kind == 'contract':
            problems.append('%s: canary missing' % job.id)
        for c in canary:
            if c['status'] != 'FAILURE':
                problems.append('%s: vacuity - canary "%s" is not reachable (contradictory assumptions?)' % (job.id, c['desc']))
    if job.loops:
        if not any('loop_invariant_step' in p['name'] or 'invariant' in p['desc'] for p in props):
            problems.append('%s: loop contracts were not applied (no loop-invariant obligations)' % job.id)
    for p in props:
        if 'verif_canary' in p['desc']:
            continue
        if p['status'] == 'SUCCESS':
            continue
        if 'must_fail' in p['desc']:
            continue
        if 'no body for callee' in p['desc'] or '.no-body.' in p['name'] or 'undefined function should be unreachable' in p['desc']:
            problems.append('%s: lowering/stub gap: %s' % (job.id, p['desc']))
            continue
        if '.unwind.' in p['name'] and any(p['name'].endswith(x) or (x + ']') in p['name'] or x in p['name'] for x in (job.meta.get('bound_loops') or [])):
            continue      # a loop the unit bounds on purpose (stated in the bound of the run): executions beyond the bound are cut, the others are decided
        if 'verif_model_bound' in p['desc'] or 'unwinding assertion' in p['desc'] or '.unwind.' in p['name']:
            problems.append('%s: bound of the bounded model too small: [%s] %s' % (job.id, p['name'], p['desc']))
            continue
        # failing obligation
        k = match_known(known, job, p)
        if k is not None:
            hits.append((k, p))
        else:
            viol.append(p)
    if viol and any('lowering/stub gap' in q for q in problems):
        # a callee without body returns arbitrary values: failures of the same run are not evidence of a violation
        problems.append('%s: %d failing obligation(s) not reported because the run has a lowering/stub gap' % (job.id, len(viol)))
        viol = []
    for p in props:
        if 'must_fail' in p['desc'] and p['status'] != 'FAILURE':
            problems.append('%s: reachability check "%s" did not fail' % (job.id, p['desc']))
    return viol, hits, problems

def match_known(known, job, p):
    for k in known:
        if k.get('status') == 'fixed':
            continue
        if k.get('job') != job.id:
            continue
        pat = k.get('obligation')
        if pat and not re.search(pat, p['name'] + ' ' + p['desc']):
            continue
        return k
    return None

def load_known(prop):
    path = os.path.join(ROOT, 'known_findings.json')
    if not os.path.exists(path):
        return []
    d = json.load(open(path))
    return [k for k in d.get('findings', []) if k.get('property') == prop]

# ----------------------------------------------------------------------------
def main(argv):
    import argparse
    ap = argparse.ArgumentParser()
    ap.add_argument('prop')
    ap.add_argument('--tier', default=os.environ.get('VERIF_TIER', 'quick'))
    ap.add_argument('--only', default=None, help='regex of job ids to run (development)')
    ap.add_argument('--keep', action='store_true')
    ap.add_argument('--no-evidence', action='store_true')
    ap.add_argument('--jobs', type=int, default=int(os.environ.get('VERIF_JOBS', '16')))
    ap.add_argument('--replay', default=None)
    args = ap.parse_args(argv)
    prop = args.prop
    tier = args.tier if args.tier in ('quick', 'thorough') else 'quick'
    seed = int(os.environ.get('VERIF_SEED', '0') or 0)
    t0 = time.time()
    if args.replay:
        import replay
        return replay.replay_file(args.replay)
    try:
        unit = Unit(prop)
        if os.path.isdir(unit.work) and not args.only:
            shutil.rmtree(unit.work, ignore_errors=True); os.makedirs(unit.work, exist_ok=True)
        unit.extract()
        jobs = []
        for fs in unit.m.FUNCS:
            if fs.get('contract', True) and (fs.get('ensures') is not None or fs.get('requires') is not None):
                if fs.get('tier') == 'thorough' and tier != 'thorough':
                    continue
                if fs.get('variants'):
                    # one run per variant: the named scalar arguments are constants of the harness, so that symbolic execution prunes the other branches
                    for v in fs['variants']:
                        jobs.append(build_contract_job(unit, dict(fs, fix=v['fix'], job_tag=v['tag'])))
                else:
                    jobs.append(build_contract_job(unit, fs))
        for lm in getattr(unit.m, 'LEMMAS', []):
            if lm.get('tier') == 'thorough' and tier != 'thorough':
                continue
            jobs.append(build_lemma_job(unit, lm))
        gen = getattr(unit.m, 'generate_jobs', None)
        if gen:
            for lm in gen(unit, tier):
                jobs.append(build_lemma_job(unit, lm))
    except ExtractionBreak as e:
        print('UNDECIDED property=%s extraction break: %s' % (prop, e))
        return 2
    if args.only:
        jobs = [j for j in jobs if re.search(args.only, j.id)]
    known = load_known(prop)
    results = {}
    with cf.ThreadPoolExecutor(max_workers=args.jobs) as ex:
        futs = {ex.submit(j.run): j for j in jobs}
        for fu in cf.as_completed(futs):
            j = futs[fu]
            try:
                results[j.id] = fu.result()
            except Exception as e:
                results[j.id] = dict(id=j.id, kind=j.kind, status='undecided', props=[], reason='runner exception: %s' % traceback.format_exc(), wall=0, meta=j.meta)
    all_viol, all_hits, all_problems = [], [], []
    for j in jobs:
        res = results[j.id]
        v, h, pr = classify(j, res, known)
        all_viol += [(j, p) for p in v]
        all_hits += [(j, k, p) for (k, p) in h]
        all_problems += pr
    # known findings that no longer fire are reported (stale), they do not fail the check
    fired = {id(k) for (_, k, _) in all_hits}
    stale = [k for k in known if k.get('status') != 'fixed' and id(k) not in fired and not args.only]
    rc = 0
    printed = set()
    for (j, k, p) in all_hits:
        key = k.get('what')
        if key in printed: continue
        printed.add(key)
        print('KNOWN-FINDING: property=%s %s' % (prop, k.get('what')))
    import replay as replay_mod
    vio_files = []
    seenjobs = {}
    per_job = {}
    PRI = ('.postcondition.', '.precondition.', 'loop_invariant_base', 'h.assertion', '.assertion.', 'loop_invariant_step', 'loop_decreases')
    def _pri(jp):
        name = jp[1]['name']
        return min([i for i, k in enumerate(PRI) if k in name] + [len(PRI)])
    all_viol.sort(key=lambda jp: (jp[0].id, _pri(jp)))    # contract-level obligations first: they get the traces and replays
    for vi, (j, p) in enumerate(all_viol):
        # traces and native replays: at most 2 per job and 24 per run; the rest are recorded without a trace
        per_job[j.id] = per_job.get(j.id, 0) + 1
        with_trace = per_job[j.id] <= 2 and sum(1 for v in per_job.values() for _ in range(min(v, 2))) <= 24
        path = replay_mod.write_violation(unit, j, p, results[j.id], trace_of if with_trace else (lambda job, name=None: 'trace skipped: more than 2 violations in this job or 24 in this run'))
        vio_files.append(path)
        conf = replay_mod.LAST_STATUS.get(path, 'no-failing-input-found')
        suffix = '' if conf == 'confirmed' else ' no-failing-input-found'
        print('VIOLATION property=%s replay=%s%s' % (prop, path, suffix))
        print('  failed obligation: [%s] %s (%s:%s) in job %s' % (p['name'], p['desc'], p.get('file'), p.get('line'), j.id))
        rc = 1
    if all_problems:
        for pr in all_problems:
            print('UNDECIDED property=%s %s' % (prop, pr))
        if rc == 0:
            rc = 2
    for k in stale:
        print('NOTE property=%s known finding did not fire on this tree: %s' % (prop, k.get('what')))
    if not args.no_evidence and not args.only:
        write_evidence(unit, tier, seed, jobs, results, all_viol, all_hits, all_problems, time.time() - t0)
    nobl = sum(len([p for p in results[j.id]['props'] if 'verif_canary' not in p['desc'] and 'must_fail' not in p['desc']]) for j in jobs)
    print('property=%s tier=%s jobs=%d obligations=%d violations=%d known=%d undecided=%d wall=%.1fs' %
          (prop, tier, len(jobs), nobl, len(all_viol), len(printed), len(all_problems), time.time() - t0))
    return rc

def write_evidence(unit, tier, seed, jobs, results, viol, hits, problems, wall):
    m = unit.m
    proof_jobs = [j for j in jobs if j.kind in ('contract', 'lemma')]
    bounded_jobs = [j for j in jobs if j.kind == 'bounded']
    def count(js):
        tot = ok = 0
        for j in js:
            for p in results[j.id]['props']:
                if 'verif_canary' in p['desc'] or 'must_fail' in p['desc']: continue
                tot += 1
                ok += p['status'] == 'SUCCESS'
        return tot, ok
    ptot, pok = count(proof_jobs)
    btot, bok = count(bounded_jobs)
    fns = []
    for fs in m.FUNCS:
        h = unit.hashes.get(fs['cname'])
        r = results.get('p_' + fs['cname'])
        fns.append(dict(function=fs['qname'], c_name=fs['cname'], file=h[1] if h else None, lines=[h[2], h[3]] if h else None,
                        source_sha256_16=h[0] if h else None,
                        contract=bool(r), obligations=len(r['props']) if r else 0,
                        solver_s=round(r.get('solver_s', 0), 2) if r else None,
                        status=(r['status'] if r else 'not under contract (used through inlining or lemma)')))
    samples = []
    for j in jobs[:]:
        ps = results[j.id]['props']
        for p in ps[:2]:
            samples.append('%s: [%s] %s: %s' % (j.id, p['name'], p['desc'], p['status']))
        if len(samples) > 24: break
    level = getattr(m, 'LEVEL', 'proof')
    cov = dict(
        obligations=ptot, discharged=pok,
        checker_cmd='goto-cc --function h_<fn>; goto-instrument --dfcc h_<fn> --enforce-contract <fn> --replace-call-with-contract <callee>... --apply-loop-contracts; cbmc ' + ' '.join(CBMC_FLAGS),
        trusted_base=getattr(m, 'TRUSTED', []) + GLOBAL_TRUSTED,
        back_end='cbmc 6.11.0, SAT (cadical, built in)',
        functions_under_contract=fns,
        proof_jobs=[dict(id=j.id, kind=j.kind, obligations=len(results[j.id]['props']), status=results[j.id]['status'],
                         solver_s=round(results[j.id].get('solver_s', 0), 2), doc=j.meta.get('lemma', j.meta.get('function'))) for j in proof_jobs],
        bounded=dict(note='bounded stand-ins (unwinding with --unwinding-assertions); never counted in obligations/discharged',
                     runs=len(bounded_jobs), obligations=btot, passed=bok,
                     jobs=[dict(id=j.id, bound=j.meta.get('bound'), unwind=j.unwind, obligations=len(results[j.id]['props']),
                                status=results[j.id]['status'], solver_s=round(results[j.id].get('solver_s', 0), 2), doc=j.meta.get('lemma')) for j in bounded_jobs]),
        dropped_by_extraction=sorted({d for fl in unit.lowered.values() for d in fl.dropped}) + getattr(m, 'DROPPED_NOTE', []),
        canaries='every contract harness ends in assert(0) that must FAIL (reachability behind the requires clauses); %d checked' % len([j for j in jobs if j.kind == 'contract']),
        known_findings_fired=sorted({k.get('what') for (_, k, _) in hits}),
        undecided=problems,
        samples=samples or ['none'],
        states=max(1, btot), transitions=max(1, len(bounded_jobs)), traces_validated_against_impl=0,
        solver_time_s=round(sum(results[j.id].get('solver_s', 0) for j in jobs), 1),
        not_decided=getattr(m, 'NOT_DECIDED', []),
    )
    ev = dict(property_id=unit.prop, tier=tier, seed=seed, level=level, coverage=cov,
              assumptions=getattr(m, 'ASSUMPTIONS', []) + scan_assumptions(unit), wall_s=round(wall, 1), violations=len(viol))
    os.makedirs(os.path.join(ROOT, 'evidence'), exist_ok=True)
    with open(os.path.join(ROOT, 'evidence', unit.prop + '.json'), 'w') as f:
        json.dump(ev, f, indent=1)

GLOBAL_TRUSTED = [
    "clang 14's typed AST as the meaning of the C++ source",
    'the AST->C lowering rules of engine/cxx2c.py (references->pointers, exceptions->ghost state, destructors dropped)',
    'C and C++ agree on the arithmetic subset after explicit casts',
    'CBMC 6.11.0: goto-cc, goto-instrument --dfcc, built-in SAT back end; IEEE-754 doubles and two\'s-complement integers bit-precisely',
    'stub contracts in /verif/stubs for libstdc++, libm and the RNG (assumed, not verified)',
]

def scan_assumptions(unit):
    hits = []
    for fn in sorted(os.listdir(STUBS)) + [os.path.join('..', 'units', unit.prop + '.py')]:
        p = os.path.join(STUBS, fn)
        try:
            for i, l in enumerate(open(p), 1):
                if re.search(r'__CPROVER_assume|TRUSTED|admit', l):
                    hits.append('scan: %s:%d: %s' % (os.path.basename(p), i, l.strip()[:160]))
        except Exception:
            pass
    return hits[:60]

if __name__ == '__main__':
    # exit 1 means "violation" and is only ever returned by main() together with a VIOLATION line: a crash of the runner itself
    # (an uncaught exception would exit 1 too) is a tool failure, reported as undecided
    try:
        rc = main(sys.argv[1:])
    except SystemExit:
        raise
    except BaseException:
        import traceback
        prop = next((a for a in sys.argv[1:] if re.match(r'^C\d\d$', a)), '?')
        print('UNDECIDED property=%s runner failure: %s' % (prop, traceback.format_exc().strip().splitlines()[-1]))
        traceback.print_exc()
        rc = 2
    sys.exit(rc)
