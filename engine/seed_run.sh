#!/bin/bash
# run the registered quick check of a property against a seeded change: usage seed_run.sh <prop> <seed dir>
P=$1; D=$2
cd /verif
git -C /repo diff --quiet || { echo "/repo not clean"; exit 2; }
git -C /repo apply "$(realpath $D/patch.diff)" || exit 2
./check $P --tier quick --no-evidence > /tmp/seedrun_$P.log 2>&1; rc=$?
git -C /repo checkout -- .
echo "exit=$rc $(grep -c '^VIOLATION' /tmp/seedrun_$P.log) violation lines; $(grep -c '^UNDECIDED' /tmp/seedrun_$P.log) undecided"
grep -A1 '^VIOLATION' /tmp/seedrun_$P.log | grep 'failed obligation' | cut -c1-220 | head -4
grep '^UNDECIDED' /tmp/seedrun_$P.log | cut -c1-200 | head -3
exit $rc
