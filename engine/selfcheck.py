#!/usr/bin/env python3
"""setup_cmd: verify the tools this framework needs are present (nothing is downloaded or built ahead of time)."""
import shutil, sys, subprocess
missing = [t for t in ('clang++-14', 'goto-cc', 'goto-instrument', 'cbmc', 'python3') if shutil.which(t) is None]
if missing:
    print('missing tools:', missing); sys.exit(1)
print(subprocess.run(['cbmc', '--version'], capture_output=True, text=True).stdout.strip())
