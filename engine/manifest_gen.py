#!/usr/bin/env python3
"""Regenerate MANIFEST.json from the table below (kept in one place so it is always valid)."""
import json, os
ROOT = os.path.dirname(os.path.dirname(os.path.abspath(__file__)))
props = [json.loads(l) for l in open(os.path.join(ROOT, 'properties.jsonl'))]
CLAIMED = json.load(open(os.path.join(ROOT, 'engine', 'claims.json')))
NA = json.load(open(os.path.join(ROOT, 'engine', 'not_applicable.json')))
checks = []
for pid, c in CLAIMED.items():
    checks.append(dict(property_id=pid, quick_cmd='./check %s --tier quick' % pid, thorough_cmd='./check %s --tier thorough' % pid,
                       evidence_file='/verif/evidence/%s.json' % pid, replay_cmd_template='./check %s --replay {path}' % pid,
                       engine='cxx2c+cbmc-dfcc', level_claimed=dict(category=c['category'], text=c['text'], design_ref=c['design_ref']),
                       level_note=c['note'], technique=c['technique']))
na = [dict(property_id=p['id'], reason=NA.get(p['id'], 'check not built yet in this round; see DESIGN.md section 0')) for p in props if p['id'] not in CLAIMED]
m = dict(version=1, setup_cmd='python3 engine/selfcheck.py',
         hooks=dict(guard='BPP_CORE_VERIF', enable='no source hook is needed: contracts live in /verif/units and are attached to the C text extracted from /repo on every run',
                    baseline_off_cmd='cmake --build /repo/_build -j16 && ctest --test-dir /repo/_build -j8 --timeout 900', source_commits=[], add_only=True),
         engines=[dict(name='cxx2c+cbmc-dfcc', path='/verif/engine', serves_properties=sorted(CLAIMED),
                       kind_free_text='clang-14 JSON AST of the real functions lowered to C on every run; contracts from /verif/units attached; goto-instrument --dfcc contract enforcement, CBMC 6.11 SAT back end; native replay of counterexamples on the real classes')],
         checks=checks, not_applicable=na,
         notes='Contract-based deductive verification with CBMC code contracts. Exit 2 (undecided: timeout, tool failure, extraction break) is never reported as a violation. fix: commits in /repo are listed in known_findings.json.')
json.dump(m, open(os.path.join(ROOT, 'MANIFEST.json'), 'w'), indent=1)
print('claimed', sorted(CLAIMED), 'not applicable', len(na))
