#!/usr/bin/env python3
"""Replay of counterexamples on the real library (DESIGN.md 3.7).

write_violation() records the failed obligation, re-runs CBMC with --trace, extracts the values of the harness
inputs and, when the unit provides an adapter for the job, builds the adapter against the library compiled from
/repo's working tree and runs the input natively.  Without an adapter or when the input does not reproduce, the
replay file still names the obligation and carries the verifier output; the caller then prints
`no-failing-input-found`.
"""
import os, re, json, subprocess, time, hashlib

HERE = os.path.dirname(os.path.abspath(__file__))
ROOT = os.path.dirname(HERE)
LAST_STATUS = {}

ASSIGN_RE = re.compile(r'^\s*([A-Za-z_][A-Za-z0-9_\.\[\]>\-!@$:#]*)=(.*?)(?: \(([0-9A-Fa-fx ]+)\))?$')

def parse_trace(trace):
    """last assignment to every lhs in the trace of the first failing property"""
    vals = {}
    seq = []
    for ln in trace.split('\n'):
        m = ASSIGN_RE.match(ln)
        if m and not ln.strip().startswith('file '):
            lhs, rhs = m.group(1), m.group(2).strip()
            vals[lhs] = rhs
            seq.append((lhs, rhs))
    return vals, seq

def hexval(rhs_full):
    m = re.search(r'\(((?:0x)?[0-9A-Fa-f ]+)\)\s*$', rhs_full)
    if not m:
        return None
    h = m.group(1).replace(' ', '')
    if h.startswith('0x'): h = h[2:]
    return '0x' + h

def default_inputs(seg):
    """named harness inputs (verif_in_*, verif_g*, plain harness locals) with the bit patterns printed by CBMC"""
    out = {}
    for ln in seg.split('\n'):
        m = re.match(r'^\s*([A-Za-z_][A-Za-z0-9_]*(?:\[\d+l?\])?)=(.*)$', ln)
        if not m: continue
        name, rhs = m.group(1), m.group(2)
        name = re.sub(r'\[(\d+)l?\]', r'_\1', name)
        hv = hexval(rhs)
        if hv is None: continue
        if name.startswith('verif_in_') or name.startswith('verif_g') or name.startswith('in_'):
            out[name] = hv
        elif name not in out and not name.startswith('__') and not name.startswith('tmp_') and not name.startswith('return_value'):
            out.setdefault('first:' + name, hv)
    return out

def write_violation(unit, job, p, res, trace_fn):
    d = os.path.join(ROOT, 'replays', unit.prop)
    os.makedirs(d, exist_ok=True)
    oid = re.sub(r'[^A-Za-z0-9_.-]+', '_', '%s__%s' % (job.id, p['name']))[:150]
    path = os.path.join(d, oid + '.json')
    trace = ''
    try:
        trace = trace_fn(job, p['name'])
    except Exception as e:
        trace = 'trace run failed: %s' % e
    # keep the part of the trace for this property
    seg = trace
    i = trace.find('Trace for ' + p['name'])
    if i >= 0:
        j = trace.find('\nTrace for ', i + 10)
        seg = trace[i:j if j > 0 else len(trace)]
    vals, seq = parse_trace(seg)
    rec = dict(property=unit.prop, job=job.id, job_kind=job.kind, obligation=p['name'], obligation_text=p['desc'],
               repo_file=p.get('file'), repo_line=p.get('line'), function=job.meta.get('function') or job.meta.get('functions'),
               unit_hashes={k: v[0] for k, v in unit.hashes.items() if v},
               verifier_cmd=res.get('cmd'), verifier_output=seg[-20000:], native='not-run',
               inputs={k: v for k, v in default_inputs(seg).items() if not k.startswith('first:')})
    adapters = getattr(unit.m, 'REPLAY', {})
    ad = adapters.get(job.id) or adapters.get(job.meta.get('cname'))
    if ad is None:
        for pat, a2 in adapters.items():
            if pat.startswith('re:') and re.search(pat[3:], job.id):
                ad = a2; break
    status = 'no-failing-input-found'
    if ad:
        try:
            inputs = default_inputs(seg)
            inputs = {k[6:] if k.startswith('first:') else k: v for k, v in inputs.items()}
            inputs['fn'] = ad.get('fn') or job.meta.get('cname') or job.id
            rec['inputs'] = inputs
            rec['adapter'] = ad['adapter']
            ok, out = run_native(unit, ad['adapter'], inputs)
            rec['native_output'] = out[-4000:]
            if ok is True:
                status = 'confirmed'
            rec['native'] = 'confirmed' if ok is True else ('not-reproduced' if ok is False else 'adapter-error')
        except Exception as e:
            rec['native'] = 'adapter-error: %r' % e
    else:
        rec['native'] = 'no adapter for this job: the counterexample starts in a havocked state or no native harness exists'
    rec['status'] = status
    with open(path, 'w') as f:
        json.dump(rec, f, indent=1)
    LAST_STATUS[path] = status
    return path

_lib_built = {}
def build_lib(work):
    """compile the real library sources needed by adapters from /repo's working tree (object cache per run)"""
    return None

def run_native(unit, adapter, inputs):
    """build adapter (C++ against /repo/src, library sources compiled from the working tree) and run it.
    The adapter reads the inputs as JSON on stdin and exits 1 with 'CONFIRMED' when the contract is violated natively."""
    work = os.path.join(ROOT, 'build', unit.prop, 'native')
    os.makedirs(work, exist_ok=True)
    src = os.path.join(ROOT, 'replay', 'adapters', adapter)
    exe = os.path.join(work, os.path.splitext(adapter)[0])
    extra = []
    libs = []
    nosan = False
    want_all = False
    for ln in open(src):
        m = re.match(r'//\s*SOURCES:\s*(.*)', ln)
        if m:
            if m.group(1).split()[:1] == ['@all']:
                want_all = True      # the whole library, compiled from the working tree (objects cached for this run)
            else:
                extra += ['/repo/src/' + s for s in m.group(1).split()]
        m = re.match(r'//\s*CXXFLAGS:\s*(.*)', ln)
        if m:
            extra += m.group(1).split()
        if re.match(r'//\s*SANITIZE:\s*none', ln):
            nosan = True
        m = re.match(r'//\s*LIBS:\s*(.*)', ln)
        if m:
            libs += m.group(1).split(); nosan = True
    cmd = ['clang++-14', '-std=c++14', '-O1', '-g', '-fsanitize=address,undefined', '-fno-sanitize-recover=undefined',
           '-I/repo/src', '-I', os.path.join(ROOT, 'replay'), src] + extra + libs + ['-o', exe]
    if nosan:
        cmd = [c for c in cmd if not c.startswith('-fsanitize') and not c.startswith('-fno-sanitize')]
    if want_all and exe not in _lib_built:
        import glob as _glob, hashlib, concurrent.futures as _cf
        libdir = os.path.join(work, 'lib_all'); os.makedirs(libdir, exist_ok=True)
        flags = [c for c in cmd[1:cmd.index('-I/repo/src')]]
        def one(f):
            o = os.path.join(libdir, hashlib.md5(f.encode()).hexdigest()[:12] + '.o')
            q = subprocess.run(['clang++-14'] + flags + ['-I/repo/src', '-c', f, '-o', o], stdout=subprocess.PIPE, stderr=subprocess.STDOUT, text=True, timeout=900)
            return o, q.returncode, q.stdout
        with _cf.ThreadPoolExecutor(max_workers=16) as ex:
            objs = list(ex.map(one, sorted(_glob.glob('/repo/src/**/*.cpp', recursive=True))))
        bad = [o for o in objs if o[1] != 0]
        if bad:
            _lib_built[exe] = (1, 'library build failed: ' + bad[0][2][-2000:])
        cmd = cmd[:-2] + [o[0] for o in objs] + cmd[-2:]
    if exe not in _lib_built:
        p = subprocess.run(cmd, stdout=subprocess.PIPE, stderr=subprocess.STDOUT, text=True, timeout=900)
        _lib_built[exe] = (p.returncode, p.stdout)
    brc, bout = _lib_built[exe]
    if brc != 0:
        return None, 'adapter build failed: ' + bout[-3000:]
    os.environ.setdefault('ASAN_OPTIONS', 'detect_leaks=0')
    try:
        p = subprocess.run([exe] + ['%s=%s' % (k, v) for k, v in inputs.items()], stdout=subprocess.PIPE, stderr=subprocess.STDOUT, text=True, errors='replace', timeout=60)
    except subprocess.TimeoutExpired as e:
        return True, 'CONFIRMED (non-termination): the real code did not return within 60 s on this input\n' + str((e.stdout or b'')[-500:])
    out = p.stdout
    if 'CONFIRMED' in out or p.returncode not in (0, 3):
        return True, out
    return False, out

def replay_file(path):
    rec = json.load(open(path))
    print(json.dumps({k: rec[k] for k in ('property', 'job', 'obligation', 'obligation_text', 'inputs', 'native', 'status') if k in rec}, indent=1))
    if rec.get('adapter'):
        class U: pass
        u = U(); u.prop = rec['property']
        ok, out = run_native(u, rec['adapter'], rec['inputs'])
        print(out)
        return 1 if ok else 0
    return 1 if rec.get('status') == 'confirmed' else 0
