/* bpp::Matrix<Scalar> interface model (DESIGN.md 3.2).
   Proof mode:   shape only.  operator()(i,j) is a contract stub: requires i < rows && j < cols (the accessor
                 precondition; the three storage classes are proved to implement it in the storage units), returns a
                 fresh cell.  Element contents are not modelled, so every clause about entries is bounded.
   Bounded mode: executable, MAT_B x MAT_B cells in one flat array (CBMC 6.11 mis-reads a pointer into a 2-D array member
                 under a symbolic row index, found while building C05: flat storage avoids it); resize keeps the cells that existed and zero-fills the new ones
                 (the behaviour of all three storage classes); an access outside the current shape is an assertion. */
#ifndef VERIF_MAT_H
#define VERIF_MAT_H
#include "verif.h"
#ifndef MAT_B
#define MAT_B 4
#endif
#ifdef VERIF_MODE_BOUNDED
#define MAT_DECL(T, M) \
  typedef struct M { unsigned long rows, cols; T d[MAT_B * MAT_B]; } M; \
  static inline unsigned long M##__getNumberOfRows(const M *m) { return m->rows; } \
  static inline unsigned long M##__getNumberOfColumns(const M *m) { return m->cols; } \
  static inline T *M##__op_call(const M *m, unsigned long i, unsigned long j) { \
    __CPROVER_assert(i < m->rows && j < m->cols, "matrix accessor precondition: index inside the current shape"); \
    __CPROVER_assume(i < m->rows && j < m->cols); return (T*)&m->d[i * MAT_B + j]; } \
  static inline void M##__resize(M *m, unsigned long r, unsigned long c) { \
    __CPROVER_assert(r <= MAT_B && c <= MAT_B, "verif_model_bound: matrix larger than the bounded model"); __CPROVER_assume(r <= MAT_B && c <= MAT_B); \
    for (unsigned long i = 0; i < MAT_B; ++i) for (unsigned long j = 0; j < MAT_B; ++j) if (!(i < m->rows && j < m->cols) || !(i < r && j < c)) m->d[i * MAT_B + j] = 0; \
    m->rows = r; m->cols = c; } \
  static inline void M##__ctor_0(M *m) { m->rows = 0; m->cols = 0; for (unsigned long i = 0; i < MAT_B; ++i) for (unsigned long j = 0; j < MAT_B; ++j) m->d[i * MAT_B + j] = 0; } \
  static inline void M##__ctor_2(M *m, unsigned long r, unsigned long c) { M##__ctor_0(m); M##__resize(m, r, c); } \
  static inline void M##__ctor_copy(M *m, const M *o) { *m = *o; } \
  static inline M *M##__op_assign(M *m, const M *o) { *m = *o; return m; }
#else
#define MAT_DECL(T, M) \
  typedef struct M { unsigned long rows, cols; } M; \
  static inline unsigned long M##__getNumberOfRows(const M *m) { return m->rows; } \
  static inline unsigned long M##__getNumberOfColumns(const M *m) { return m->cols; } \
  T *M##__op_call(const M *m, unsigned long i, unsigned long j) \
    __CPROVER_requires(i < m->rows && j < m->cols) \
    __CPROVER_ensures(__CPROVER_is_fresh(__CPROVER_return_value, sizeof(T))) \
    __CPROVER_assigns(); \
  void M##__resize(M *m, unsigned long r, unsigned long c) \
    __CPROVER_requires(1) \
    __CPROVER_ensures(m->rows == r && m->cols == c) \
    __CPROVER_assigns(m->rows, m->cols); \
  static inline void M##__ctor_0(M *m) { m->rows = 0; m->cols = 0; } \
  static inline void M##__ctor_2(M *m, unsigned long r, unsigned long c) { m->rows = r; m->cols = c; } \
  static inline void M##__ctor_copy(M *m, const M *o) { *m = *o; } \
  static inline M *M##__op_assign(M *m, const M *o) { *m = *o; return m; }
#endif
#define MD(m, i, j) ((m).d[(i) * MAT_B + (j)])
#define MDP(p, i, j) ((p)->d[(i) * MAT_B + (j)])
#define MAT_FRESH(m) __CPROVER_is_fresh(m, sizeof(*(m)))
#endif
