/* common prelude of every lowered translation unit (see DESIGN.md 3.1-3.3) */
#ifndef VERIF_H
#define VERIF_H
#include <stddef.h>
#include <stdint.h>

/* ghost exception state: class of the exception in flight, 0 = none */
int verif_exc;
int verif_exc_caught;

enum {
  EXC_none = 0,
  EXC_Exception, EXC_IOException, EXC_NullPointerException, EXC_ZeroDivisionException, EXC_BadIntegerException,
  EXC_BadNumberException, EXC_NumberFormatException, EXC_IndexOutOfBoundsException, EXC_BadSizeException,
  EXC_OutOfRangeException, EXC_NotImplementedException, EXC_ParameterException, EXC_ConstraintException,
  EXC_ParameterNotFoundException, EXC_VectorException, EXC_EmptyVectorException, EXC_DimensionException,
  EXC_ElementNotFoundException,
  /* not library exceptions: */
  EXC_std_exception, EXC_std_bad_cast, EXC_std_out_of_range, EXC_std_bad_alloc,
  EXC_COUNT
};
/* class tree (Exceptions.h, ParameterExceptions.h, VectorExceptions.h) */
#define VERIF_PARENT(e) ( \
  (e) == EXC_Exception ? EXC_std_exception : \
  (e) == EXC_ConstraintException ? EXC_ParameterException : \
  (e) == EXC_EmptyVectorException ? EXC_VectorException : \
  (e) == EXC_ElementNotFoundException ? EXC_VectorException : \
  (e) == EXC_std_bad_cast ? EXC_std_exception : \
  (e) == EXC_std_out_of_range ? EXC_std_exception : \
  (e) == EXC_std_bad_alloc ? EXC_std_exception : \
  (e) == EXC_std_exception ? 0 : \
  (e) == 0 ? 0 : EXC_Exception)
#define verif_exc_isa(e, c) ((e) != 0 && ((e) == (c) || VERIF_PARENT(e) == (c) || VERIF_PARENT(VERIF_PARENT(e)) == (c) || VERIF_PARENT(VERIF_PARENT(VERIF_PARENT(e))) == (c)))
/* "the library's exception type": bpp::Exception or derived */
#define verif_exc_is_lib(e) ((e) == 0 || verif_exc_isa(e, EXC_Exception))

/* aliases produced by the lowering for templated exception classes */
#define EXC_EmptyVectorException_double EXC_EmptyVectorException
#define EXC_EmptyVectorException_int EXC_EmptyVectorException
#define EXC_EmptyVectorException_ulong EXC_EmptyVectorException
#define EXC_ElementNotFoundException_double EXC_ElementNotFoundException
#define EXC_ElementNotFoundException_int EXC_ElementNotFoundException
#define EXC_ElementNotFoundException_ulong EXC_ElementNotFoundException
#define EXC_std_basic_string_char EXC_Exception /* never thrown */

void *malloc(size_t);
static inline void *verif_new(size_t sz) { void *p = malloc(sz); __CPROVER_assume(p != 0); return p; }
static inline void *verif_new_array(size_t n, size_t sz) { void *p = malloc(n * sz); __CPROVER_assume(p != 0); return p; }

double nondet_double(void);
int nondet_int(void);
unsigned long nondet_ulong(void);
unsigned int nondet_uint(void);
long nondet_long(void);
_Bool nondet_bool(void);
char nondet_char(void);

#define VERIF_ISNAN(x) ((x) != (x))
#define VERIF_PINF (1.0 / 0.0)
#define VERIF_MINF (-1.0 / 0.0)
#define VERIF_ISFINITE(x) ((x) == (x) && (x) != VERIF_PINF && (x) != VERIF_MINF)
#endif
