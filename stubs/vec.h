/* std::vector<T> model: pointer + length (DESIGN.md 3.2).  Accessors are inline C, so an out-of-range index is a
   failing pointer check in the caller.  Growth (push_back/resize/insert) re-allocates; capacity is not modelled. */
#ifndef VERIF_VEC_H
#define VERIF_VEC_H
#include "verif.h"
#define VEC_CAP 65536UL
#define VEC_DECL(T, V) \
  typedef struct V { T *d; unsigned long n; } V; \
  static inline unsigned long V##__size(const V *v) { return v->n; } \
  static inline _Bool V##__empty(const V *v) { return v->n == 0; } \
  static inline T *V##__op_index(const V *v, unsigned long i) { return &v->d[i]; } \
  static inline T *V##__at_unchecked(const V *v, unsigned long i) { return &v->d[i]; } \
  static inline T *V##__at(const V *v, unsigned long i) { if (i >= v->n) { verif_exc = EXC_std_out_of_range; return (T*)0; } return &v->d[i]; } \
  static inline T *V##__front(const V *v) { return &v->d[0]; } \
  static inline T *V##__back(const V *v) { return &v->d[v->n - 1]; } \
  static inline void V##__ctor_0(V *v) { v->d = 0; v->n = 0; } \
  static inline void V##__clear(V *v) { v->n = 0; } \
  static inline void V##__pop_back(V *v) { __CPROVER_assert(v->n > 0, "pop_back on an empty vector (undefined behaviour)"); v->n = v->n - 1; }
#define VEC_FRESH(v) ((v)->n <= VEC_CAP && ((v)->n == 0 || __CPROVER_is_fresh((v)->d, (v)->n * sizeof(*(v)->d))))
#endif
