/* std::vector<T> model: pointer + length (DESIGN.md 3.2).
   Accessors are inline C in both modes, so an out-of-range index is a failing pointer check in the caller.
   Proof mode   (VERIF_MODE_PROOF):   growth operations are contract stubs: new length exact, storage fresh,
                                      element contents after growth unspecified (safety / length proofs only).
   Bounded mode (VERIF_MODE_BOUNDED): executable; every vector owns VEC_BCAP slots; exceeding the capacity fails the
                                      assertion "verif_model_bound", which the runner reports as undecided, not as a violation. */
#ifndef VERIF_VEC_H
#define VERIF_VEC_H
#include "verif.h"
#define VEC_CAP 65536UL
#ifndef VEC_BCAP
#define VEC_BCAP 8
#endif

#define VEC_COMMON(T, V) \
  typedef struct V { T *d; unsigned long n; } V; \
  static inline unsigned long V##__size(const V *v) { return v->n; } \
  static inline _Bool V##__empty(const V *v) { return v->n == 0; } \
  static inline T *V##__op_index(const V *v, unsigned long i) { return &v->d[i]; } \
  static inline T *V##__at(const V *v, unsigned long i) { if (i >= v->n) { verif_exc = EXC_std_out_of_range; return (T*)0; } return &v->d[i]; } \
  static inline T *V##__front(const V *v) { return &v->d[0]; } \
  static inline T *V##__back(const V *v) { return &v->d[v->n - 1]; } \
  static inline T *V##__begin(const V *v) { return v->d; } \
  static inline T *V##__end(const V *v) { return v->d + v->n; } \
  static inline T *V##__rbegin(const V *v) { return v->d + v->n; } \
  static inline T *V##__rend(const V *v) { return v->d; } \
  static inline T *V##__data(const V *v) { return v->d; } \
  static inline void V##__clear(V *v) { v->n = 0; } \
  static inline void V##__pop_back(V *v) { __CPROVER_assert(v->n > 0, "pop_back on an empty vector (undefined behaviour)"); v->n = v->n - 1; }

#ifdef VERIF_MODE_BOUNDED
#define VEC_DECL(T, V) VEC_COMMON(T, V) \
  static inline void V##__ctor_0(V *v) { v->d = (T*)verif_new_array(VEC_BCAP, sizeof(T)); v->n = 0; } \
  static inline void V##__push_back(V *v, const T *x) { __CPROVER_assert(v->n < VEC_BCAP, "verif_model_bound: vector capacity of the bounded model exceeded"); __CPROVER_assume(v->n < VEC_BCAP); v->d[v->n] = *x; v->n = v->n + 1; } \
  static inline void V##__ctor_1(V *v, unsigned long n) { __CPROVER_assert(n <= VEC_BCAP, "verif_model_bound: vector capacity of the bounded model exceeded"); __CPROVER_assume(n <= VEC_BCAP); v->d = (T*)verif_new_array(VEC_BCAP, sizeof(T)); v->n = n; for (unsigned long i = 0; i < n; ++i) v->d[i] = (T){0}; } \
  static inline void V##__ctor_2(V *v, unsigned long n, const T *x) { __CPROVER_assert(n <= VEC_BCAP, "verif_model_bound: vector capacity of the bounded model exceeded"); __CPROVER_assume(n <= VEC_BCAP); v->d = (T*)verif_new_array(VEC_BCAP, sizeof(T)); v->n = n; for (unsigned long i = 0; i < n; ++i) v->d[i] = *x; } \
  static inline void V##__ctor_copy(V *v, const V *o) { v->d = (T*)verif_new_array(VEC_BCAP, sizeof(T)); v->n = o->n; for (unsigned long i = 0; i < o->n; ++i) v->d[i] = o->d[i]; } \
  static inline V V##__make_copy(const V *o) { V r; V##__ctor_copy(&r, o); return r; } \
  static inline V V##__make_0(void) { V r; V##__ctor_0(&r); return r; } \
  static inline V V##__make_1(unsigned long n) { V r; V##__ctor_1(&r, n); return r; } \
  static inline V *V##__op_assign(V *v, const V *o) { if (v != o) { T *nd = (T*)verif_new_array(VEC_BCAP, sizeof(T)); for (unsigned long i = 0; i < o->n; ++i) nd[i] = o->d[i]; v->d = nd; v->n = o->n; } return v; } \
  static inline void V##__resize(V *v, unsigned long n) { __CPROVER_assert(n <= VEC_BCAP, "verif_model_bound: vector capacity of the bounded model exceeded"); __CPROVER_assume(n <= VEC_BCAP); for (unsigned long i = v->n; i < n; ++i) v->d[i] = (T){0}; v->n = n; } \
  static inline void V##__resize_2(V *v, unsigned long n, const T *x) { __CPROVER_assert(n <= VEC_BCAP, "verif_model_bound: vector capacity of the bounded model exceeded"); __CPROVER_assume(n <= VEC_BCAP); for (unsigned long i = v->n; i < n; ++i) v->d[i] = *x; v->n = n; } \
  static inline T *V##__erase(V *v, T *pos) { \
    __CPROVER_assert(__CPROVER_same_object(pos, v->d) && pos >= v->d && pos < v->d + v->n, "erase with an iterator that is not dereferenceable in this vector (undefined behaviour)"); \
    unsigned long k = (unsigned long)(pos - v->d); for (unsigned long i = k; i + 1 < v->n; ++i) v->d[i] = v->d[i + 1]; v->n = v->n - 1; return pos; } \
  static inline T *V##__insert(V *v, T *pos, const T *x) { \
    __CPROVER_assert(v->n < VEC_BCAP, "verif_model_bound: vector capacity of the bounded model exceeded"); __CPROVER_assume(v->n < VEC_BCAP); \
    __CPROVER_assert(__CPROVER_same_object(pos, v->d) && pos >= v->d && pos <= v->d + v->n, "insert with an iterator outside this vector (undefined behaviour)"); \
    unsigned long k = (unsigned long)(pos - v->d); T val = *x; for (unsigned long i = v->n; i > k; --i) v->d[i] = v->d[i - 1]; v->d[k] = val; v->n = v->n + 1; return pos; }
#else
#define VEC_DECL(T, V) VEC_COMMON(T, V) \
  static inline void V##__ctor_0(V *v) { v->d = (T*)verif_new(0); v->n = 0; } \
  void V##__push_back(V *v, const T *x) \
    __CPROVER_requires(v->n < VEC_CAP) \
    __CPROVER_ensures(v->n == __CPROVER_old(v->n) + 1 && __CPROVER_is_fresh(v->d, v->n * sizeof(T))) \
    __CPROVER_assigns(v->d, v->n); \
  void V##__ctor_1(V *v, unsigned long n) \
    __CPROVER_requires(n <= VEC_CAP) \
    __CPROVER_ensures(v->n == n && __CPROVER_is_fresh(v->d, n * sizeof(T))) \
    __CPROVER_assigns(v->d, v->n); \
  void V##__ctor_2(V *v, unsigned long n, const T *x) \
    __CPROVER_requires(n <= VEC_CAP) \
    __CPROVER_ensures(v->n == n && __CPROVER_is_fresh(v->d, n * sizeof(T))) \
    __CPROVER_assigns(v->d, v->n); \
  void V##__ctor_copy(V *v, const V *o) \
    __CPROVER_requires(o->n <= VEC_CAP) \
    __CPROVER_ensures(v->n == o->n && __CPROVER_is_fresh(v->d, v->n * sizeof(T))) \
    __CPROVER_assigns(v->d, v->n); \
  V V##__make_copy(const V *o) \
    __CPROVER_requires(o->n <= VEC_CAP) \
    __CPROVER_ensures(__CPROVER_return_value.n == o->n && __CPROVER_is_fresh(__CPROVER_return_value.d, __CPROVER_return_value.n * sizeof(T))) \
    __CPROVER_assigns(); \
  void V##__resize(V *v, unsigned long n) \
    __CPROVER_requires(n <= VEC_CAP) \
    __CPROVER_ensures(v->n == n && __CPROVER_is_fresh(v->d, n * sizeof(T))) \
    __CPROVER_assigns(v->d, v->n);
#endif
/* an empty vector owns a zero-sized object: reading element 0 of it is a failing pointer check */
#define VEC_FRESH(v) ((v)->n <= VEC_CAP && __CPROVER_is_fresh((v)->d, (v)->n * sizeof(*(v)->d)))
#endif
