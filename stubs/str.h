/* std::string model: bytes + length, d[n] == 0 (DESIGN.md 3.2).
   s[i] is inline C (i <= n is legal, beyond is a failing pointer check in the caller).
   Proof mode:   searching / slicing / growing members are contract stubs.  Character-class facts are expressed with
                 uninterpreted predicates over (string, set, position) so that progress arguments (termination) go through;
                 substr raises std::out_of_range for pos > size (NOT a library exception: an obligation of C16);
                 contents of results are unspecified.
   Bounded mode: executable, every string owns STR_BCAP bytes. */
#ifndef VERIF_STR_H
#define VERIF_STR_H
#include "verif.h"
typedef struct Str { char *d; unsigned long n; } Str;
#define STR_NPOS (~0UL)
#define STR_CAP 65536UL
#ifndef STR_BCAP
#define STR_BCAP 16
#endif
#define STR_FRESH(s) ((s)->n < STR_CAP && __CPROVER_is_fresh((s)->d, (s)->n + 1) && (s)->d[(s)->n] == 0)
#define STR_OBJ(s) (__CPROVER_is_fresh(s, sizeof(Str)) && STR_FRESH(s))

static inline unsigned long Str__size(const Str *s) { return s->n; }
static inline unsigned long Str__length(const Str *s) { return s->n; }
static inline _Bool Str__empty(const Str *s) { return s->n == 0; }
static inline char *Str__op_index(const Str *s, unsigned long i) { return &s->d[i]; }
static inline char *Str__begin(const Str *s) { return s->d; }
static inline char *Str__end(const Str *s) { return s->d + s->n; }
static inline char *Str__c_str(const Str *s) { return s->d; }
static inline unsigned long verif_cstrlen(const char *p) { unsigned long k = 0; while (p[k]) ++k; return k; }

#ifdef VERIF_MODE_BOUNDED
static inline void Str__ctor_0(Str *s) { s->d = (char*)verif_new_array(STR_BCAP, 1); s->n = 0; s->d[0] = 0; }
static inline Str Str__make_0(void) { Str r; Str__ctor_0(&r); return r; }
static inline void verif_str_set(Str *s, const char *p, unsigned long n) {
  __CPROVER_assert(n < STR_BCAP, "verif_model_bound: string longer than the bounded model holds"); __CPROVER_assume(n < STR_BCAP);
  char *nd = (char*)verif_new_array(STR_BCAP, 1); for (unsigned long i = 0; i < STR_BCAP; ++i) { if (i < n) nd[i] = p[i]; } nd[n] = 0; s->d = nd; s->n = n; }
static inline void Str__ctor_copy(Str *s, const Str *o) { verif_str_set(s, o->d, o->n); }
static inline Str Str__make_copy(const Str *o) { Str r; Str__ctor_copy(&r, o); return r; }
static inline void Str__ctor_cstr(Str *s, const char *p) { unsigned long k = 0; for (unsigned long i = 0; i < STR_BCAP; ++i) { if (!p[k]) break; ++k; } verif_str_set(s, p, k); }
static inline Str Str__make_cstr(const char *p) { Str r; Str__ctor_cstr(&r, p); return r; }
static inline Str *Str__op_assign(Str *s, const Str *o) { if (s != o) verif_str_set(s, o->d, o->n); return s; }
static inline Str *Str__op_assign_move(Str *s, Str *o) { *s = *o; return s; }
static inline Str *Str__op_pluseq_c(Str *s, char c) { __CPROVER_assert(s->n + 1 < STR_BCAP, "verif_model_bound: string longer than the bounded model holds"); __CPROVER_assume(s->n + 1 < STR_BCAP);
  char *nd = (char*)verif_new_array(STR_BCAP, 1); for (unsigned long i = 0; i < STR_BCAP; ++i) { if (i < s->n) nd[i] = s->d[i]; } nd[s->n] = c; nd[s->n + 1] = 0; s->d = nd; s->n = s->n + 1; return s; }
static inline Str *Str__op_pluseq(Str *s, const Str *o) { unsigned long m = s->n + o->n; __CPROVER_assert(m < STR_BCAP, "verif_model_bound: string longer than the bounded model holds"); __CPROVER_assume(m < STR_BCAP);
  char *nd = (char*)verif_new_array(STR_BCAP, 1); for (unsigned long i = 0; i < STR_BCAP; ++i) { if (i < s->n) nd[i] = s->d[i]; else if (i < m) nd[i] = o->d[i - s->n]; } nd[m] = 0; s->d = nd; s->n = m; return s; }
static inline Str Str__concat(const Str *a, const Str *b) { Str r; Str__ctor_copy(&r, a); Str__op_pluseq(&r, b); return r; }
static inline Str Str__substr(const Str *s, unsigned long pos, unsigned long len) { Str r; r.d = 0; r.n = 0;
  if (pos > s->n) { verif_exc = EXC_std_out_of_range; return r; }
  unsigned long m = s->n - pos; if (len < m) m = len; verif_str_set(&r, s->d + pos, m); return r; }
static inline _Bool Str__eq(const Str *a, const Str *b) { if (a->n != b->n) return 0; for (unsigned long i = 0; i < STR_BCAP; ++i) { if (i < a->n && a->d[i] != b->d[i]) return 0; } return 1; }
static inline _Bool Str__eq_cstr(const Str *a, const char *p) { for (unsigned long i = 0; i < STR_BCAP; ++i) { if (i < a->n) { if (p[i] == 0 || p[i] != a->d[i]) return 0; } else return p[i] == 0; } return 0; }
static inline _Bool verif_in_set(const char *set, unsigned long m, char c) { for (unsigned long k = 0; k < STR_BCAP; ++k) { if (k < m && set[k] == c) return 1; } return 0; }
static inline unsigned long Str__find_first_of_n(const Str *s, const char *set, unsigned long m, unsigned long pos) { for (unsigned long i = 0; i < STR_BCAP; ++i) { if (i >= pos && i < s->n && verif_in_set(set, m, s->d[i])) return i; } return STR_NPOS; }
static inline unsigned long Str__find_first_not_of_n(const Str *s, const char *set, unsigned long m, unsigned long pos) { for (unsigned long i = 0; i < STR_BCAP; ++i) { if (i >= pos && i < s->n && !verif_in_set(set, m, s->d[i])) return i; } return STR_NPOS; }
/* rfind(pat): last position at which pat occurs (size() for the empty pattern) */
static inline unsigned long Str__rfind(const Str *s, const Str *pat, unsigned long pos) { unsigned long r = STR_NPOS;
  for (unsigned long i = 0; i < STR_BCAP; ++i) { if (i + pat->n <= s->n) { _Bool m = 1; for (unsigned long k = 0; k < STR_BCAP; ++k) { if (k < pat->n && s->d[i + k] != pat->d[k]) m = 0; } if (m) r = i; } } return r; }
static inline unsigned long Str__find_n(const Str *s, const char *pat, unsigned long m, unsigned long pos) {
  for (unsigned long i = 0; i < STR_BCAP; ++i) { if (i >= pos && i + m <= s->n) { _Bool ok = 1; for (unsigned long k = 0; k < STR_BCAP; ++k) { if (k < m && s->d[i + k] != pat[k]) ok = 0; } if (ok) return i; } } return STR_NPOS; }
static inline unsigned long Str__find_last_of_n(const Str *s, const char *set, unsigned long m) { unsigned long r = STR_NPOS; for (unsigned long i = 0; i < STR_BCAP; ++i) { if (i < s->n && verif_in_set(set, m, s->d[i])) r = i; } return r; }
#else
/* ---- proof mode: uninterpreted character-class predicates ---- */
_Bool __CPROVER_uninterpreted_inset(const void *s, const void *set, unsigned long k);      /* s[k] is a member of set */
_Bool __CPROVER_uninterpreted_matchat(const void *s, const void *pat, unsigned long k);    /* pat occurs in s at position k */
#define STR_INSET(s, set, k) __CPROVER_uninterpreted_inset((const void*)(s), (const void*)(set), k)
#define STR_MATCH(s, pat, k) __CPROVER_uninterpreted_matchat((const void*)(s), (const void*)(pat), k)
static inline void Str__ctor_0(Str *s) { s->d = (char*)verif_new(1); s->d[0] = 0; s->n = 0; }
static inline Str Str__make_0(void) { Str r; Str__ctor_0(&r); return r; }
void Str__ctor_copy(Str *s, const Str *o)
  __CPROVER_requires(o->n < STR_CAP) __CPROVER_ensures(s->n == o->n && __CPROVER_is_fresh(s->d, s->n + 1) && s->d[s->n] == 0) __CPROVER_assigns(s->d, s->n);
Str Str__make_copy(const Str *o)
  __CPROVER_requires(o->n < STR_CAP) __CPROVER_ensures(__CPROVER_return_value.n == o->n && __CPROVER_is_fresh(__CPROVER_return_value.d, o->n + 1) && __CPROVER_return_value.d[o->n] == 0) __CPROVER_assigns();
Str Str__make_cstr(const char *p)
  __CPROVER_requires(1) __CPROVER_ensures(__CPROVER_return_value.n < STR_CAP && __CPROVER_is_fresh(__CPROVER_return_value.d, __CPROVER_return_value.n + 1) && __CPROVER_return_value.d[__CPROVER_return_value.n] == 0) __CPROVER_assigns();
Str *Str__op_assign(Str *s, const Str *o)
  __CPROVER_requires(o->n < STR_CAP) __CPROVER_ensures(__CPROVER_return_value == s && s->n == o->n && __CPROVER_is_fresh(s->d, s->n + 1) && s->d[s->n] == 0) __CPROVER_assigns(s->d, s->n);
/* growth: the new length is exact; the storage is fresh only when the length is inside the cap of the memory model */
Str *Str__op_pluseq_c(Str *s, char c)
  __CPROVER_requires(1) __CPROVER_ensures(__CPROVER_return_value == s && s->n == __CPROVER_old(s->n) + 1 && (s->n < STR_CAP ==> (__CPROVER_is_fresh(s->d, s->n + 1) && s->d[s->n] == 0))) __CPROVER_assigns(s->d, s->n);
Str *Str__op_pluseq(Str *s, const Str *o)
  __CPROVER_requires(1) __CPROVER_ensures(__CPROVER_return_value == s && s->n == __CPROVER_old(s->n) + o->n && (s->n < STR_CAP ==> (__CPROVER_is_fresh(s->d, s->n + 1) && s->d[s->n] == 0))) __CPROVER_assigns(s->d, s->n);
Str Str__concat(const Str *a, const Str *b)
  __CPROVER_requires(1) __CPROVER_ensures(__CPROVER_return_value.n == a->n + b->n && (__CPROVER_return_value.n < STR_CAP ==> (__CPROVER_is_fresh(__CPROVER_return_value.d, __CPROVER_return_value.n + 1) && __CPROVER_return_value.d[__CPROVER_return_value.n] == 0))) __CPROVER_assigns();
/* substr: pos > size() raises std::out_of_range, which is not an exception of the library */
Str Str__substr(const Str *s, unsigned long pos, unsigned long len)
  __CPROVER_requires(s->n < STR_CAP)
  __CPROVER_ensures(pos > s->n ==> verif_exc == EXC_std_out_of_range)
  __CPROVER_ensures(pos <= s->n ==> (verif_exc == __CPROVER_old(verif_exc) && __CPROVER_return_value.n == (len < s->n - pos ? len : s->n - pos) && __CPROVER_is_fresh(__CPROVER_return_value.d, __CPROVER_return_value.n + 1) && __CPROVER_return_value.d[__CPROVER_return_value.n] == 0))
  __CPROVER_assigns(verif_exc);
_Bool Str__eq(const Str *a, const Str *b) __CPROVER_requires(1) __CPROVER_ensures(__CPROVER_return_value ==> a->n == b->n) __CPROVER_assigns();
_Bool Str__eq_cstr(const Str *a, const char *p) __CPROVER_requires(1) __CPROVER_ensures(1) __CPROVER_assigns();
/* find_first_of / find_first_not_of / find: result is npos or a position >= pos inside the string with the stated character-class fact */
unsigned long Str__find_first_of_n(const Str *s, const char *set, unsigned long m, unsigned long pos)
  __CPROVER_requires(1)
  __CPROVER_ensures(__CPROVER_return_value == STR_NPOS || (__CPROVER_return_value >= pos && __CPROVER_return_value < s->n && STR_INSET(s, set, __CPROVER_return_value)))
  __CPROVER_assigns();
unsigned long Str__find_first_not_of_n(const Str *s, const char *set, unsigned long m, unsigned long pos)
  __CPROVER_requires(1)
  __CPROVER_ensures(__CPROVER_return_value == STR_NPOS || (__CPROVER_return_value >= pos && __CPROVER_return_value < s->n && !STR_INSET(s, set, __CPROVER_return_value)))
  __CPROVER_assigns();
unsigned long Str__find_n(const Str *s, const char *pat, unsigned long m, unsigned long pos)
  __CPROVER_requires(1)
  __CPROVER_ensures(__CPROVER_return_value == STR_NPOS || (__CPROVER_return_value >= pos && __CPROVER_return_value + m <= s->n && __CPROVER_return_value + m >= __CPROVER_return_value && STR_MATCH(s, pat, __CPROVER_return_value)))
  __CPROVER_ensures((m == 0 && pos <= s->n) ==> __CPROVER_return_value == pos)
  __CPROVER_assigns();
unsigned long Str__find_last_of_n(const Str *s, const char *set, unsigned long m)
  __CPROVER_requires(1)
  __CPROVER_ensures(__CPROVER_return_value == STR_NPOS || (__CPROVER_return_value < s->n && STR_INSET(s, set, __CPROVER_return_value)))
  __CPROVER_assigns();
#endif
/* overloads of the searching members, all expressed with the (pointer, length) forms above */
static inline unsigned long Str__find_first_of(const Str *s, const Str *set, unsigned long pos) { return Str__find_first_of_n(s, set->d, set->n, pos); }
static inline unsigned long Str__find_first_not_of(const Str *s, const Str *set, unsigned long pos) { return Str__find_first_not_of_n(s, set->d, set->n, pos); }
static inline unsigned long Str__find(const Str *s, const Str *pat, unsigned long pos) { return Str__find_n(s, pat->d, pat->n, pos); }
static inline unsigned long Str__find_last_of(const Str *s, const Str *set, unsigned long pos) { return Str__find_last_of_n(s, set->d, set->n); }
#endif
