/* std::string model: bytes + length. */
#ifndef VERIF_STR_H
#define VERIF_STR_H
#include "verif.h"
typedef struct Str { char *d; unsigned long n; } Str;
#define STR_NPOS (~0UL)
#define STR_CAP 65536UL
#endif
