/* libm: axiomatic models (assumed, listed in the evidence).  log: log(0) = -inf, log(1) = 0, log(+inf) = +inf,
   NaN for negative or NaN arguments, otherwise an uninterpreted function (monotone by assumption where a unit says so). */
#ifndef VERIF_LIBM_H
#define VERIF_LIBM_H
#include "verif.h"
double __CPROVER_uninterpreted_log(double);
double __CPROVER_uninterpreted_exp(double);
static inline double verif_log(double x) {
  if (x != x || x < 0.0) return 0.0 / 0.0;
  if (x == 0.0) return VERIF_MINF;
  if (x == 1.0) return 0.0;
  if (x == VERIF_PINF) return VERIF_PINF;
  double r = __CPROVER_uninterpreted_log(x);
  __CPROVER_assume(VERIF_ISFINITE(r));     /* TRUSTED axiom: the logarithm of a finite positive number is finite */
  return r;
}
double __CPROVER_uninterpreted_fmul(double, double);
double __CPROVER_uninterpreted_fdiv(double, double);
/* arithmetic abstraction used where a unit says so: any functional interpretation, in particular IEEE arithmetic */
static inline double verif_uf_mul(double a, double b) { return __CPROVER_uninterpreted_fmul(a, b); }
static inline double verif_uf_div(double a, double b) { return __CPROVER_uninterpreted_fdiv(a, b); }
static inline double verif_fabs(double x) { return __CPROVER_fabs(x); }
#endif
