/* std::map<unsigned, V> over a bounded key universe [0, NU): a table of entries indexed by the key plus an end sentinel
   (bounded mode only; DESIGN.md C14).  An iterator is a pointer to an entry; end() is the sentinel e[NU].
   Undefined behaviour of the real container is an assertion here: dereferencing end() is a failing pointer/"present" check
   in the caller's reads only through erase/it->second below; erasing with end() or with an iterator of another map fails
   "erase with an iterator that is not dereferenceable in this map". Keys >= NU exceed the model (verif_model_bound). */
#ifndef VERIF_MAP_H
#define VERIF_MAP_H
#include "verif.h"
#ifndef MAP_MAXNU
#define MAP_MAXNU 8
#endif
/* ++it: next present entry (the sentinel is marked present) */
#define VERIF_MAP_NEXT(it) ({ __typeof__(it) verif_n_ = (it) + 1; for (int verif_k_ = 0; verif_k_ < MAP_MAXNU; ++verif_k_) { if (verif_n_->verif_present) break; verif_n_ = verif_n_ + 1; } verif_n_; })
/* it->x / *it: dereferencing end() is undefined behaviour */
#define VERIF_MAP_DEREF(it) ({ __typeof__(it) verif_d_ = (it); __CPROVER_assert(!verif_d_->verif_end, "dereference of an end() iterator of a map (undefined behaviour)"); verif_d_; })
#define MAP_DECL(V, M, E, NU, VINIT) \
  typedef struct E { unsigned int first; V second; _Bool verif_present; _Bool verif_end; } E; \
  typedef struct M { E e[(NU) + 1]; } M; \
  static inline void M##__ctor_0(M *m) { for (unsigned k = 0; k < (NU); ++k) { m->e[k].verif_present = 0; m->e[k].verif_end = 0; m->e[k].first = k; } m->e[NU].verif_present = 1; m->e[NU].verif_end = 1; m->e[NU].first = (NU); } \
  static inline M M##__make_0(void) { M r; M##__ctor_0(&r); return r; } \
  static inline E *M##__end(const M *m) { return (E*)&m->e[NU]; } \
  static inline E *M##__begin(const M *m) { for (unsigned k = 0; k < (NU); ++k) if (m->e[k].verif_present) return (E*)&m->e[k]; return (E*)&m->e[NU]; } \
  static inline E *M##__find(const M *m, const unsigned int *k) { return (*k < (NU) && m->e[*k].verif_present) ? (E*)&m->e[*k] : (E*)&m->e[NU]; } \
  static inline unsigned long M##__size(const M *m) { unsigned long c = 0; for (unsigned k = 0; k < (NU); ++k) if (m->e[k].verif_present) c++; return c; } \
  static inline unsigned long M##__count(const M *m, const unsigned int *k) { return (*k < (NU) && m->e[*k].verif_present) ? 1 : 0; } \
  static inline void M##__clear(M *m) { for (unsigned k = 0; k < (NU); ++k) m->e[k].verif_present = 0; } \
  static inline V *M##__op_index(M *m, const unsigned int *k) { \
    __CPROVER_assert(*k < (NU), "verif_model_bound: key outside the bounded key universe of the map model"); __CPROVER_assume(*k < (NU)); \
    if (!m->e[*k].verif_present) { m->e[*k].verif_present = 1; m->e[*k].first = *k; VINIT(&m->e[*k].second); } return &m->e[*k].second; } \
  static inline E *M##__erase(M *m, E *it) { \
    __CPROVER_assert(__CPROVER_same_object(it, m) && it >= &m->e[0] && it < &m->e[NU] && it->verif_present, "erase with an iterator that is not dereferenceable in this map (end() or foreign iterator: undefined behaviour)"); \
    __CPROVER_assume(__CPROVER_same_object(it, m) && it >= &m->e[0] && it < &m->e[NU]); \
    it->verif_present = 0; return VERIF_MAP_NEXT(it); } \
  static inline unsigned long M##__erase_key(M *m, const unsigned int *k) { if (*k < (NU) && m->e[*k].verif_present) { m->e[*k].verif_present = 0; return 1; } return 0; }
/* reads through an iterator: it->first / it->second on end() is undefined behaviour */
#define MAP_DEREF_OK(m, it) ((it) != &(m)->e[sizeof((m)->e) / sizeof((m)->e[0]) - 1])
#define SCALAR_INIT(p) (*(p) = 0)
#endif
